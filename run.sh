#!/bin/sh
# usage: run.sh <property-id> quick|thorough
# Rebuilds the obligations from /repo's current working tree on every run.
set -u
export GOFLAGS=-mod=mod GOPROXY=off GOSUMDB=off GOTOOLCHAIN=local
cd /verif
if [ ! -x bin/vc ] || [ -n "$(find cmd -newer bin/vc -name '*.go' 2>/dev/null | head -1)" ]; then
  go build -o bin/vc ./cmd/vc || exit 2
fi
exec ./bin/vc check -prop "$1" -tier "${2:-quick}" -repo "${VERIF_REPO:-/repo}" -verif /verif
