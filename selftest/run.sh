#!/bin/sh
# Must-fail corpus: every mutant must make the named property's check exit 1.
# usage: selftest/run.sh [pattern] ; SELFTEST_JOBS=n runs n mutants at a time
export GOFLAGS=-mod=mod GOPROXY=off GOSUMDB=off GOTOOLCHAIN=local VC_RETRY=${VC_RETRY:-30}
cd /verif
one() {
  d=$1
  S=$(mktemp -d /tmp/verif-selftest.XXXXXX)
  prop=$(basename "$d" | cut -d_ -f1)
  mkdir -p "$S/repo" "$S/verif"
  rsync -a --exclude .git /repo/ "$S/repo/"
  cp KNOWN_FINDINGS.txt "$S/verif/"
  if ! (cd "$S/repo" && patch -p1 -s < "/verif/$d"); then echo "PATCH-FAILED $d"; rm -rf "$S"; return 1; fi
  out=$(./bin/vc check -prop "$prop" -repo "$S/repo" -verif "$S/verif" 2>&1); rc=$?
  rm -rf "$S"
  if [ $rc -eq 1 ]; then echo "caught   $d: $(echo "$out" | grep -c '^VIOLATION') violation(s): $(echo "$out" | grep '^VIOLATION' | head -1 | sed 's/.*obligation=//')"; return 0
  else echo "MISSED   $d (rc=$rc)"; echo "$out" | tail -3; return 1; fi
}
if [ "$1" = "--one" ]; then one "$2"; exit $?; fi
ls selftest/mutants/${1:-*}.diff 2>/dev/null | xargs -P ${SELFTEST_JOBS:-1} -n 1 sh selftest/run.sh --one
