#!/bin/sh
# Must-fail corpus: every mutant must make the named property's check exit 1.
# usage: selftest/run.sh [pattern]
export GOFLAGS=-mod=mod GOPROXY=off GOSUMDB=off GOTOOLCHAIN=local
cd /verif
S=/tmp/verif-selftest.$$
fail=0
for d in selftest/mutants/${1:-*}.diff; do
  [ -f "$d" ] || continue
  prop=$(basename "$d" | cut -d_ -f1)
  rm -rf "$S"; mkdir -p "$S/repo" "$S/verif"
  rsync -a --exclude .git /repo/ "$S/repo/"
  cp KNOWN_FINDINGS.txt "$S/verif/"
  if ! (cd "$S/repo" && patch -p1 -s < "/verif/$d"); then echo "PATCH-FAILED $d"; fail=1; continue; fi
  out=$(./bin/vc check -prop "$prop" -repo "$S/repo" -verif "$S/verif" 2>&1); rc=$?
  if [ $rc -eq 1 ]; then echo "caught   $d: $(echo "$out" | grep -c '^VIOLATION') violation(s): $(echo "$out" | grep '^VIOLATION' | head -1 | sed 's/.*obligation=//')"
  else echo "MISSED   $d (rc=$rc)"; echo "$out" | tail -3; fail=1; fi
done
rm -rf "$S"
exit $fail
