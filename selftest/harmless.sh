#!/bin/sh
# Must-stay-quiet corpus: behaviour-preserving edits (logging, reordering of
# independent statements, comments, equivalent control flow, capacity hints);
# the named property's check must still exit 0.
export GOFLAGS=-mod=mod GOPROXY=off GOSUMDB=off GOTOOLCHAIN=local
cd /verif
fail=0
for d in selftest/harmless/${1:-*}.diff; do
  [ -f "$d" ] || continue
  S=$(mktemp -d /tmp/verif-harmless.XXXXXX)
  prop=$(basename "$d" | cut -d_ -f1)
  mkdir -p "$S/repo" "$S/verif"
  rsync -a --exclude .git /repo/ "$S/repo/"
  cp KNOWN_FINDINGS.txt "$S/verif/"
  if ! (cd "$S/repo" && patch -p1 -s < "/verif/$d"); then echo "PATCH-FAILED $d"; fail=1; rm -rf "$S"; continue; fi
  out=$(./bin/vc check -prop "$prop" -repo "$S/repo" -verif "$S/verif" 2>&1); rc=$?
  rm -rf "$S"
  if [ $rc -eq 0 ]; then echo "quiet    $d"
  else echo "ALARM    $d (rc=$rc)"; echo "$out" | grep '^VIOLATION' | head -3 | cut -c1-220; fail=1; fi
done
exit $fail
