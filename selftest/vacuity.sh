#!/bin/sh
# Self-test of the vacuity guard: re-creates the contradictory Source.Get model of
# DESIGN I.6 (VC_TEST_GETHOLE) and expects the reachability cover of the success
# block of the partition fetch to be reported.
cd /verif
S=$(mktemp -d /tmp/verif-vacuity.XXXXXX)
out=$(VC_TEST_GETHOLE=1 VC_RETRY=5 ./bin/vc check -prop C01 -verif "$S" 2>&1)
rm -rf "$S"
if echo "$out" | grep -q '^VIOLATION .*load\$1:block#[0-9]*:cover'; then echo "guard works: $(echo "$out" | grep 'load\$1:block#' | sed 's/.*obligation=//')"; exit 0; fi
echo "GUARD FAILED"; echo "$out" | tail -3; exit 1
