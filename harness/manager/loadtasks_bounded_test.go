package shovel

// Bounded stand-in for C20 (labelled bounded): the real loadTasks (the function
// Manager.Run uses for every generation) against an in-memory PostgreSQL
// stand-in, for every mix of two integration names being absent / enabled /
// disabled in the file and in the database, with one or two source
// references, plus unknown-source references and a source-name clash. The
// task set must be exactly one task per enabled integration (file wins on a
// name clash) and referenced source, each with that source's settings and the
// reference's start and stop; an unknown source is an error.

import (
	"context"
	"encoding/json"
	"fmt"
	"sort"
	"strings"
	"testing"

	"github.com/indexsupply/shovel/dig"
	"github.com/indexsupply/shovel/shovel/config"
	"github.com/indexsupply/shovel/wctx"
	"github.com/indexsupply/shovel/wpg"
)

type igState int // 0 absent, 1 enabled, 2 disabled

func mkIGConf(name string, enabled bool, origin string, srcs []config.Source) config.Integration {
	return config.Integration{Name: name, Enabled: enabled, Sources: srcs,
		Table: wpg.Table{Name: "t_" + name + "_" + origin, Columns: []wpg.Column{{Name: "x", Type: "bytea"}}}}
}

func TestVerifLoadTasksBounded(t *testing.T) {
	cases, fails := 0, 0
	fail := func(format string, a ...any) {
		fails++
		if fails <= 10 {
			fmt.Printf("BOUNDED-FAIL "+format+"\n", a...)
		}
	}
	names := []string{"a", "b"}
	// source settings: the file and the database both define "shared" (file wins), each has one of its own
	fileSources := []config.Source{
		{Name: "fs", ChainID: 11, URLs: []string{"http://127.0.0.1:1"}, BatchSize: 7, Concurrency: 2},
		{Name: "shared", ChainID: 12, URLs: []string{"http://127.0.0.1:1"}, BatchSize: 9, Concurrency: 3},
	}
	dbSources := [][3]string{{"ds", "21", "http://127.0.0.1:1"}, {"shared", "22", "http://127.0.0.1:1"}}
	refSets := [][]config.Source{
		{{Name: "fs", Start: 5, Stop: 50}},
		{{Name: "ds", Start: 6}, {Name: "shared", Start: 7, Stop: 70}},
		{{Name: "nosuch"}},
		{{Name: "fs"}, {Name: "nosuch"}},
	}
	for code := 0; code < 9*9; code++ {
		for ri, refs := range refSets {
			st := func(k int) (file, db igState) {
				c := code
				for i := 0; i < k; i++ {
					c /= 9
				}
				return igState(c % 3), igState((c / 3) % 3)
			}
			var file config.Root
			file.Sources = fileSources
			fpg := &fakePG{sources: dbSources}
			type exp struct {
				enabled bool
				origin  string
			}
			want := map[string]exp{}
			for k, n := range names {
				f, d := st(k)
				if d != 0 {
					b, _ := json.Marshal(mkIGConf(n, d == 1, "db", refs))
					fpg.integrations = append(fpg.integrations, string(b))
					want[n] = exp{d == 1, "db"}
				}
				if f != 0 {
					file.Integrations = append(file.Integrations, mkIGConf(n, f == 1, "file", refs))
					want[n] = exp{f == 1, "file"} // the file wins on a clash
				}
			}
			cases++
			desc := fmt.Sprintf("code=%d refs#%d", code, ri)
			tasks, err := loadTasks(context.Background(), fpg.pool(t), file)
			anyEnabled := false
			for _, e := range want {
				anyEnabled = anyEnabled || e.enabled
			}
			unknown := false
			for _, r := range refs {
				unknown = unknown || r.Name == "nosuch"
			}
			if unknown && anyEnabled {
				if err == nil {
					fail("%s: a reference to an unknown source did not produce an error (%d tasks)", desc, len(tasks))
				}
				continue
			}
			if err != nil {
				fail("%s: loadTasks: %v", desc, err)
				continue
			}
			var wantTasks, gotTasks []string
			for n, e := range want {
				if !e.enabled {
					continue
				}
				for _, r := range refs {
					batch, conc, chain := 0, 0, uint64(0)
					switch r.Name {
					case "fs":
						batch, conc, chain = 7, 2, 11
					case "shared":
						batch, conc, chain = 9, 3, 12 // the file's definition wins
					case "ds":
						chain = 21
					}
					wantTasks = append(wantTasks, fmt.Sprintf("%s/%s table=t_%s_%s start=%d stop=%d chain=%d batch=%d conc=%d", r.Name, n, n, e.origin, r.Start, r.Stop, chain, batch, conc))
				}
			}
			for _, task := range tasks {
				// C04: the names a task writes under are the same everywhere: the
				// Task fields, the context values read by the row builder, and the
				// destination built from the integration
				if wctx.SrcName(task.ctx) != task.srcName || wctx.IGName(task.ctx) != task.destConfig.Name || wctx.ChainID(task.ctx) != task.srcChainID {
					fail("%s: task %s/%s carries context names %s/%s chain %d", desc, task.srcName, task.destConfig.Name, wctx.SrcName(task.ctx), wctx.IGName(task.ctx), wctx.ChainID(task.ctx))
				}
				for _, d := range task.dests {
					if ig, ok := d.(dig.Integration); !ok || ig.Name() != task.destConfig.Name {
						fail("%s: task %s/%s has a destination of another name", desc, task.srcName, task.destConfig.Name)
					}
				}
				s := fmt.Sprintf("%s/%s table=%s start=%d stop=%d chain=%d", task.srcName, task.destConfig.Name, task.destConfig.Table.Name, task.start, task.stop, task.srcChainID)
				// batch size and concurrency fall back to defaults when unset: compare only what the source sets
				if task.srcName == "ds" {
					s += " batch=0 conc=0"
				} else {
					s += fmt.Sprintf(" batch=%d conc=%d", task.batchSize, task.concurrency)
				}
				gotTasks = append(gotTasks, s)
			}
			sort.Strings(wantTasks)
			sort.Strings(gotTasks)
			if strings.Join(wantTasks, ";") != strings.Join(gotTasks, ";") {
				fail("%s: tasks = %v, want %v", desc, gotTasks, wantTasks)
			}
		}
	}
	fmt.Printf("BOUNDED cases=%d failures=%d exhaustive=true\n", cases, fails)
	if fails > 0 {
		t.Fail()
	}
}
