package shovel

// Bounded stand-in for C20 (labelled bounded): the real loadTasks (the function
// Manager.Run uses for every generation) against an in-memory PostgreSQL
// stand-in, for every mix of two integration names being absent / enabled /
// disabled in the file and in the database, with one or two source
// references, plus unknown-source references and a source-name clash. The
// task set must be exactly one task per enabled integration (file wins on a
// name clash) and referenced source, each with that source's settings and the
// reference's start and stop; an unknown source is an error.

import (
	"context"
	"encoding/json"
	"fmt"
	"reflect"
	"sort"
	"strings"
	"testing"

	"github.com/indexsupply/shovel/dig"
	"github.com/indexsupply/shovel/shovel/config"
	"github.com/indexsupply/shovel/wctx"
	"github.com/indexsupply/shovel/wpg"
)

type igState int // 0 absent, 1 enabled, 2 disabled

func mkIGConf(name string, enabled bool, origin string, srcs []config.Source) config.Integration {
	return config.Integration{Name: name, Enabled: enabled, Sources: srcs,
		Table: wpg.Table{Name: "t_" + name + "_" + origin, Columns: []wpg.Column{{Name: "x", Type: "bytea"}}}}
}

func TestVerifLoadTasksBounded(t *testing.T) {
	cases, fails := 0, 0
	fail := func(format string, a ...any) {
		fails++
		if fails <= 10 {
			fmt.Printf("BOUNDED-FAIL "+format+"\n", a...)
		}
	}
	names := []string{"a", "b"}
	// source settings: the file and the database both define "shared" (file wins), each has one of its own
	fileSources := []config.Source{
		{Name: "fs", ChainID: 11, URLs: []string{"http://127.0.0.1:1"}, BatchSize: 7, Concurrency: 2},
		{Name: "shared", ChainID: 12, URLs: []string{"http://127.0.0.1:1"}, BatchSize: 9, Concurrency: 3},
	}
	dbSources := [][3]string{{"ds", "21", "http://127.0.0.1:1"}, {"shared", "22", "http://127.0.0.1:1"}}
	refSets := [][]config.Source{
		{{Name: "fs", Start: 5, Stop: 50}},
		{{Name: "ds", Start: 6}, {Name: "shared", Start: 7, Stop: 70}},
		{{Name: "nosuch"}},
		{{Name: "fs"}, {Name: "nosuch"}},
	}
	for code := 0; code < 9*9; code++ {
		for ri, refs := range refSets {
			st := func(k int) (file, db igState) {
				c := code
				for i := 0; i < k; i++ {
					c /= 9
				}
				return igState(c % 3), igState((c / 3) % 3)
			}
			var file config.Root
			file.Sources = fileSources
			fpg := &fakePG{sources: dbSources}
			type exp struct {
				enabled bool
				origin  string
			}
			want := map[string]exp{}
			for k, n := range names {
				f, d := st(k)
				if d != 0 {
					b, _ := json.Marshal(mkIGConf(n, d == 1, "db", refs))
					fpg.integrations = append(fpg.integrations, string(b))
					want[n] = exp{d == 1, "db"}
				}
				if f != 0 {
					file.Integrations = append(file.Integrations, mkIGConf(n, f == 1, "file", refs))
					want[n] = exp{f == 1, "file"} // the file wins on a clash
				}
			}
			cases++
			desc := fmt.Sprintf("code=%d refs#%d", code, ri)
			tasks, err := loadTasks(context.Background(), fpg.pool(t), file)
			anyEnabled := false
			for _, e := range want {
				anyEnabled = anyEnabled || e.enabled
			}
			unknown := false
			for _, r := range refs {
				unknown = unknown || r.Name == "nosuch"
			}
			if unknown && anyEnabled {
				if err == nil {
					fail("%s: a reference to an unknown source did not produce an error (%d tasks)", desc, len(tasks))
				}
				continue
			}
			if err != nil {
				fail("%s: loadTasks: %v", desc, err)
				continue
			}
			var wantTasks, gotTasks []string
			for n, e := range want {
				if !e.enabled {
					continue
				}
				for _, r := range refs {
					batch, conc, chain := 0, 0, uint64(0)
					switch r.Name {
					case "fs":
						batch, conc, chain = 7, 2, 11
					case "shared":
						batch, conc, chain = 9, 3, 12 // the file's definition wins
					case "ds":
						chain = 21
					}
					wantTasks = append(wantTasks, fmt.Sprintf("%s/%s table=t_%s_%s start=%d stop=%d chain=%d batch=%d conc=%d", r.Name, n, n, e.origin, r.Start, r.Stop, chain, batch, conc))
				}
			}
			seenDecoder := map[uintptr]string{}
			for _, task := range tasks {
				// every destination decodes into state of its own (tasks and the
				// concurrency slots of one task run at the same time)
				for di, d := range task.dests {
					if ig, ok := d.(dig.Integration); ok {
						p := reflect.ValueOf(ig).FieldByName("resultCache").Pointer()
						who := fmt.Sprintf("%s/%s#%d", task.srcName, task.destConfig.Name, di)
						if other, dup := seenDecoder[p]; dup && p != 0 {
							fail("%s: destinations %s and %s share one decoder state", desc, other, who)
						}
						seenDecoder[p] = who
					}
				}
				// C04: the names a task writes under are the same everywhere: the
				// Task fields, the context values read by the row builder, and the
				// destination built from the integration
				if wctx.SrcName(task.ctx) != task.srcName || wctx.IGName(task.ctx) != task.destConfig.Name || wctx.ChainID(task.ctx) != task.srcChainID {
					fail("%s: task %s/%s carries context names %s/%s chain %d", desc, task.srcName, task.destConfig.Name, wctx.SrcName(task.ctx), wctx.IGName(task.ctx), wctx.ChainID(task.ctx))
				}
				for _, d := range task.dests {
					if ig, ok := d.(dig.Integration); !ok || ig.Name() != task.destConfig.Name {
						fail("%s: task %s/%s has a destination of another name", desc, task.srcName, task.destConfig.Name)
					}
				}
				s := fmt.Sprintf("%s/%s table=%s start=%d stop=%d chain=%d", task.srcName, task.destConfig.Name, task.destConfig.Table.Name, task.start, task.stop, task.srcChainID)
				// batch size and concurrency fall back to defaults when unset: compare only what the source sets
				if task.srcName == "ds" {
					s += " batch=0 conc=0"
				} else {
					s += fmt.Sprintf(" batch=%d conc=%d", task.batchSize, task.concurrency)
				}
				gotTasks = append(gotTasks, s)
			}
			sort.Strings(wantTasks)
			sort.Strings(gotTasks)
			if strings.Join(wantTasks, ";") != strings.Join(gotTasks, ";") {
				fail("%s: tasks = %v, want %v", desc, gotTasks, wantTasks)
			}
		}
	}
	// second family: database rows that differ from one another (source
	// reference, range, event, presence of the "enabled" key) and sources that
	// set only one of batch size and concurrency; the file is decoded from text
	// the way cmd/shovel does. Every task must have its own integration's
	// source, range and event (the topic filter is the independently known
	// Keccak-256 of the declared signature).
	const (
		transferHash = "0xddf252ad1be2c89b69c2b068fc378daa952ba7f163c4a11628f55a4df523b3ef"
		approvalHash = "0x8c5be1e5ebec7d5bd14f71427d1e84f3dd0314c0f7b2291e5b200ac8c7c3b925"
	)
	evTransfer := `{"name":"Transfer","type":"event","inputs":[{"indexed":true,"name":"from","type":"address","column":"f"},{"indexed":true,"name":"to","type":"address"},{"name":"value","type":"uint256"}]}`
	evApproval := `{"name":"Approval","type":"event","inputs":[{"indexed":true,"name":"owner","type":"address","column":"f"},{"indexed":true,"name":"spender","type":"address"},{"name":"value","type":"uint256"}]}`
	tbl := func(n string) string {
		return `{"name":"` + n + `","columns":[{"name":"f","type":"bytea"}]}`
	}
	rows := []string{
		`{"name":"da","enabled":true,"sources":[{"name":"fs","start":100,"stop":200}],"table":` + tbl("tda") + `,"event":` + evTransfer + `}`,
		`{"name":"db","enabled":true,"sources":[{"name":"bonly","start":5}],"table":` + tbl("tdb") + `,"event":` + evApproval + `}`,
		`{"name":"dc","sources":[{"name":"fs"}],"table":` + tbl("tdc") + `,"event":` + evTransfer + `}`,
		`{"name":"dd","enabled":true,"sources":[{"name":"conly","start":9,"stop":9},{"name":"zero","start":9,"stop":3}],"table":` + tbl("tdd") + `,"event":` + evApproval + `}`,
		`{"name":"DA","enabled":true,"sources":[{"name":"fs","start":300}],"table":` + tbl("tDA") + `,"event":` + evApproval + `}`,
	}
	fileText := `{"eth_sources":[
 {"name":"fs","chain_id":11,"url":"http://127.0.0.1:1","batch_size":7,"concurrency":2},
 {"name":"bonly","chain_id":12,"url":"http://127.0.0.1:1","batch_size":13},
 {"name":"conly","chain_id":13,"url":"http://127.0.0.1:1","concurrency":4},
 {"name":"zero","url":"http://127.0.0.1:1","concurrency":0,"batch_size":6}],
"integrations":[
 {"name":"fa","enabled":true,"sources":[{"name":"bonly","start":77,"stop":77}],"table":` + tbl("tfa") + `,"event":` + evTransfer + `}]}`
	wantFam2 := map[string]string{
		"fs/da":    "start=100 stop=200 chain=11 batch=7 conc=2 topic=" + transferHash,
		"bonly/db": "start=5 stop=0 chain=12 batch=13 conc=1 topic=" + approvalHash,
		"conly/dd": "start=9 stop=9 chain=13 batch=1 conc=4 topic=" + approvalHash,
		"zero/dd":  "start=9 stop=3 chain=0 batch=6 conc=1 topic=" + approvalHash,
		"bonly/fa": "start=77 stop=77 chain=12 batch=13 conc=1 topic=" + transferHash,
		"fs/DA":    "start=300 stop=0 chain=11 batch=7 conc=2 topic=" + approvalHash,
	}
	perms := [][]int{{0, 1, 2, 3}, {1, 0, 3, 2}, {3, 2, 1, 0}, {2, 3, 0, 1}, {0}, {1}, {3}, {0, 4}, {4, 0}, {4, 3, 0}}
	for _, perm := range perms {
		cases++
		var file config.Root
		if err := json.Unmarshal([]byte(fileText), &file); err != nil {
			fail("second family: decoding the file: %v", err)
			break
		}
		fpg := &fakePG{}
		present := map[string]bool{"fa": true}
		for _, k := range perm {
			fpg.integrations = append(fpg.integrations, rows[k])
			present[[]string{"da", "db", "dc", "dd", "DA"}[k]] = true
		}
		tasks, err := loadTasks(context.Background(), fpg.pool(t), file)
		if err != nil {
			fail("second family, rows %v: loadTasks: %v", perm, err)
			continue
		}
		got := map[string]string{}
		for _, task := range tasks {
			topic := ""
			if tp := task.filter.Topics(); len(tp) > 0 && len(tp[0]) > 0 {
				topic = tp[0][0]
			}
			if wctx.SrcName(task.ctx) != task.srcName || wctx.IGName(task.ctx) != task.destConfig.Name || wctx.ChainID(task.ctx) != task.srcChainID {
				fail("second family, rows %v: task %s/%s (chain %d) carries context names %s/%s chain %d", perm, task.srcName, task.destConfig.Name, task.srcChainID, wctx.SrcName(task.ctx), wctx.IGName(task.ctx), wctx.ChainID(task.ctx))
			}
			got[task.srcName+"/"+task.destConfig.Name] = fmt.Sprintf("start=%d stop=%d chain=%d batch=%d conc=%d topic=%s", task.start, task.stop, task.srcChainID, task.batchSize, task.concurrency, topic)
		}
		for k, w := range wantFam2 {
			ig := k[strings.Index(k, "/")+1:]
			if !present[ig] {
				continue
			}
			if got[k] != w {
				fail("second family, rows %v: task %s is %q, want %q", perm, k, got[k], w)
			}
			delete(got, k)
		}
		for k, g := range got {
			fail("second family, rows %v: unexpected task %s (%s)", perm, k, g)
		}
	}
	fmt.Printf("BOUNDED cases=%d failures=%d exhaustive=true\n", cases, fails)
	if fails > 0 {
		t.Fail()
	}
}
