package shovel

// (Written by an independent sub-agent as part of a seeded-change demonstration and reused
// here unchanged as test infrastructure.)
// A tiny in-memory stand-in for PostgreSQL, just enough for
// loadTasks / Manager.Run / Task.Converge to get going offline.
// It speaks the simple query protocol over net.Pipe connections
// handed to pgx through ConnConfig.DialFunc.

import (
	"context"
	"fmt"
	"net"
	"regexp"
	"strings"
	"sync"
	"testing"

	"github.com/jackc/pgx/v5"
	"github.com/jackc/pgx/v5/pgproto3"
	"github.com/jackc/pgx/v5/pgxpool"
)

type fakePG struct {
	mu           sync.Mutex
	integrations []string    // rows of shovel.integrations.conf (json)
	sources      [][3]string // rows of shovel.sources: name, chain_id, url

	// called (without mu held) when a runner's "latest" query for
	// the (src, ig) pair arrives. The query is answered (with an
	// error, so that Converge returns) once the hook returns.
	onLatest func(src, ig string)
}

var latestRe = regexp.MustCompile(`(?s)from shovel\.task_updates.*src_name\s*=\s*'([^']*)'.*ig_name\s*=\s*'([^']*)'`)

func (f *fakePG) pool(t *testing.T) *pgxpool.Pool {
	t.Helper()
	cfg, err := pgxpool.ParseConfig("postgres://u@127.0.0.1:5432/db?sslmode=disable")
	if err != nil {
		t.Fatal(err)
	}
	cfg.MaxConns = 16
	cfg.ConnConfig.DefaultQueryExecMode = pgx.QueryExecModeSimpleProtocol
	cfg.ConnConfig.DialFunc = func(ctx context.Context, network, addr string) (net.Conn, error) {
		c, s := net.Pipe()
		go f.serve(s)
		return c, nil
	}
	p, err := pgxpool.NewWithConfig(context.Background(), cfg)
	if err != nil {
		t.Fatal(err)
	}
	return p
}

func (f *fakePG) serve(c net.Conn) {
	defer c.Close()
	be := pgproto3.NewBackend(c, c)
	if _, err := be.ReceiveStartupMessage(); err != nil {
		return
	}
	be.Send(&pgproto3.AuthenticationOk{})
	be.Send(&pgproto3.ParameterStatus{Name: "client_encoding", Value: "UTF8"})
	be.Send(&pgproto3.ParameterStatus{Name: "standard_conforming_strings", Value: "on"})
	be.Send(&pgproto3.ParameterStatus{Name: "server_version", Value: "16.0"})
	be.Send(&pgproto3.BackendKeyData{ProcessID: 1, SecretKey: 1})
	be.Send(&pgproto3.ReadyForQuery{TxStatus: 'I'})
	if err := be.Flush(); err != nil {
		return
	}
	tx := byte('I')
	for {
		msg, err := be.Receive()
		if err != nil {
			return
		}
		q, ok := msg.(*pgproto3.Query)
		if !ok {
			if _, ok := msg.(*pgproto3.Terminate); ok {
				return
			}
			continue
		}
		sql := strings.TrimSpace(q.String)
		lower := strings.ToLower(sql)
		switch {
		case strings.HasPrefix(lower, "begin"):
			tx = 'T'
			be.Send(&pgproto3.CommandComplete{CommandTag: []byte("BEGIN")})
		case strings.HasPrefix(lower, "rollback"):
			tx = 'I'
			be.Send(&pgproto3.CommandComplete{CommandTag: []byte("ROLLBACK")})
		case strings.HasPrefix(lower, "commit"):
			tx = 'I'
			be.Send(&pgproto3.CommandComplete{CommandTag: []byte("COMMIT")})
		case strings.HasPrefix(lower, "set "), lower == "-- ping", lower == ";", lower == "":
			be.Send(&pgproto3.CommandComplete{CommandTag: []byte("SET")})
		case strings.Contains(lower, "from shovel.integrations"):
			f.mu.Lock()
			rows := append([]string(nil), f.integrations...)
			f.mu.Unlock()
			be.Send(&pgproto3.RowDescription{Fields: []pgproto3.FieldDescription{
				{Name: []byte("conf"), DataTypeOID: 25, DataTypeSize: -1, TypeModifier: -1},
			}})
			for _, r := range rows {
				be.Send(&pgproto3.DataRow{Values: [][]byte{[]byte(r)}})
			}
			be.Send(&pgproto3.CommandComplete{CommandTag: []byte(fmt.Sprintf("SELECT %d", len(rows)))})
		case strings.Contains(lower, "from shovel.sources"):
			f.mu.Lock()
			rows := append([][3]string(nil), f.sources...)
			f.mu.Unlock()
			be.Send(&pgproto3.RowDescription{Fields: []pgproto3.FieldDescription{
				{Name: []byte("name"), DataTypeOID: 25, DataTypeSize: -1, TypeModifier: -1},
				{Name: []byte("chain_id"), DataTypeOID: 23, DataTypeSize: 4, TypeModifier: -1},
				{Name: []byte("url"), DataTypeOID: 25, DataTypeSize: -1, TypeModifier: -1},
			}})
			for _, r := range rows {
				be.Send(&pgproto3.DataRow{Values: [][]byte{[]byte(r[0]), []byte(r[1]), []byte(r[2])}})
			}
			be.Send(&pgproto3.CommandComplete{CommandTag: []byte(fmt.Sprintf("SELECT %d", len(rows)))})
		default:
			if m := latestRe.FindStringSubmatch(sql); m != nil && f.onLatest != nil {
				f.onLatest(m[1], m[2])
			}
			if tx == 'T' {
				tx = 'E'
			}
			be.Send(&pgproto3.ErrorResponse{
				Severity: "ERROR",
				Code:     "XX000",
				Message:  "fakepg: unsupported statement",
			})
		}
		be.Send(&pgproto3.ReadyForQuery{TxStatus: tx})
		if err := be.Flush(); err != nil {
			return
		}
	}
}
