package dig

// Bounded stand-in for the part of Selected's contract that is not proved
// deductively (labelled bounded): the real Input.Selected / Event.Selected
// against an independent specification (the inputs naming a column, children
// before their parent, in declaration order) for every input tree with at
// most 3 levels, at most 2 components per node and every selection pattern.

import (
	"fmt"
	"testing"
)

func specSel(inp Input, out *[]string) {
	for _, c := range inp.Components {
		specSel(c, out)
	}
	if len(inp.Column) > 0 {
		*out = append(*out, inp.Name+"/"+inp.Column)
	}
}

// all trees of the given depth; names are assigned by position
func trees(depth int, prefix string) []Input {
	var out []Input
	for _, selected := range []bool{false, true} {
		for _, indexed := range []bool{false, true} {
			leaf := Input{Name: prefix, Type: "uint256", Indexed: indexed}
			if selected {
				leaf.Column = "c_" + prefix
			}
			out = append(out, leaf)
		}
	}
	if depth == 0 {
		return out
	}
	sub1 := trees(depth-1, prefix+"0")
	sub2 := trees(depth-1, prefix+"1")
	for _, sel := range []bool{false, true} {
		for _, a := range sub1 {
			n := Input{Name: prefix, Type: "tuple", Components: []Input{a}}
			if sel {
				n.Column = "c_" + prefix
			}
			out = append(out, n)
			for j, b := range sub2 {
				if depth > 1 && j%3 != 0 { // thinning at the top level keeps the run short
					continue
				}
				m := Input{Name: prefix, Type: "tuple", Components: []Input{a, b}}
				if sel {
					m.Column = "c_" + prefix
				}
				out = append(out, m)
			}
		}
	}
	return out
}

func TestVerifSelectedBounded(t *testing.T) {
	cases, fails := 0, 0
	ts := trees(2, "i")
	check := func(desc string, got []Input, want []string) {
		cases++
		var g []string
		for _, x := range got {
			g = append(g, x.Name+"/"+x.Column)
		}
		if fmt.Sprint(g) != fmt.Sprint(want) {
			fails++
			if fails <= 10 {
				fmt.Printf("BOUNDED-FAIL %s: Selected = %v, specification = %v\n", desc, g, want)
			}
		}
	}
	for k, tr := range ts {
		var want []string
		specSel(tr, &want)
		check(fmt.Sprintf("tree#%d", k), tr.Selected(), want)
	}
	// events: pairs of trees (thinned)
	for a := 0; a < len(ts); a += 7 {
		for b := 0; b < len(ts); b += 11 {
			x, y := ts[a], ts[b]
			y.Name = "j"
			var want []string
			specSel(x, &want)
			specSel(y, &want)
			check(fmt.Sprintf("event#%d,%d", a, b), Event{Name: "E", Inputs: []Input{x, y}}.Selected(), want)
		}
	}
	fmt.Printf("BOUNDED cases=%d failures=%d exhaustive=true\n", cases, fails)
	if fails > 0 {
		t.Fail()
	}
}
