package config_test

// Bounded stand-in for the derivation half of C05 (labelled bounded): the
// dependency set the task later waits for is computed by ValidateFilterRefs.
// For every assignment of {no reference, reference to integration A, B or C}
// to three event inputs and two block fields, in two declaration orders, the
// real ValidateFix must record every referenced integration in Dependencies
// (and nothing that is not referenced), must give each referenced table an
// index on the referenced column, and must set the referenced table name on
// event inputs and block fields alike. Variants: the index already declared;
// two referenced integrations writing to one shared table.

import (
	"fmt"
	"sort"
	"strings"
	"testing"

	"github.com/indexsupply/shovel/dig"
	"github.com/indexsupply/shovel/shovel/config"
	"github.com/indexsupply/shovel/wpg"
)

// declared: the operator already lists the index on the referenced column
var declaredIndex bool

// sharedTable: integrations A and B write to one table (a supported set-up)
var sharedTable bool

func tableOf(name string) string {
	if sharedTable && name == "B" {
		return "t_A"
	}
	return "t_" + name
}

func refIG(name string) config.Integration {
	ig := config.Integration{Name: name, Enabled: true,
		Table: wpg.Table{Name: tableOf(name), Columns: []wpg.Column{{Name: "addr", Type: "bytea"}}},
		Block: []dig.BlockData{{Name: "tx_signer", Column: "addr"}}}
	if declaredIndex {
		ig.Table.Index = [][]string{{"addr"}}
	}
	return ig
}

func TestVerifDepsBounded(t *testing.T) {
	targets := []string{"", "A", "B", "C"}
	cases, fails := 0, 0
	fail := func(format string, a ...any) {
		fails++
		if fails <= 10 {
			fmt.Printf("BOUNDED-FAIL "+format+"\n", a...)
		}
	}
	for _, variant := range [][2]bool{{false, false}, {true, false}, {false, true}} {
		declaredIndex, sharedTable = variant[0], variant[1]
		for code := 0; code < 4*4*4*4*4; code++ {
			pick := func(k int) string {
				c := code
				for i := 0; i < k; i++ {
					c /= 4
				}
				return targets[c%4]
			}
			for _, mainFirst := range []bool{false, true} {
				ref := func(tgt string) dig.Filter {
					if tgt == "" {
						return dig.Filter{}
					}
					return dig.Filter{Op: "contains", Ref: dig.Ref{Integration: tgt, Column: "addr"}}
				}
				main := config.Integration{Name: "main", Enabled: true,
					Table: wpg.Table{Name: "t_main", Columns: []wpg.Column{
						{Name: "f", Type: "bytea"}, {Name: "t", Type: "bytea"}, {Name: "w", Type: "bytea"}, {Name: "txto", Type: "bytea"}, {Name: "la", Type: "bytea"}}},
					Event: dig.Event{Name: "E", Type: "event", Inputs: []dig.Input{
						{Indexed: true, Name: "from", Type: "address", Column: "f", Filter: ref(pick(0))},
						{Indexed: true, Name: "to", Type: "address", Column: "t", Filter: ref(pick(1))},
						{Name: "who", Type: "address", Column: "w", Filter: ref(pick(2))}}},
					Block: []dig.BlockData{
						{Name: "tx_to", Column: "txto", Filter: ref(pick(3))},
						{Name: "log_addr", Column: "la", Filter: ref(pick(4))}},
				}
				igs := []config.Integration{refIG("A"), refIG("B"), refIG("C")}
				mi := 3
				if mainFirst {
					igs = append([]config.Integration{main}, igs...)
					mi = 0
				} else {
					igs = append(igs, main)
				}
				conf := config.Root{Integrations: igs}
				cases++
				if err := config.ValidateFix(&conf); err != nil {
					fail("code=%d mainFirst=%v: rejected: %v", code, mainFirst, err)
					continue
				}
				want := map[string]bool{}
				for k := 0; k < 5; k++ {
					if p := pick(k); p != "" {
						want[p] = true
					}
				}
				got := map[string]bool{}
				for _, d := range conf.Integrations[mi].Dependencies {
					got[d] = true
				}
				var w, g []string
				for k := range want {
					w = append(w, k)
				}
				for k := range got {
					g = append(g, k)
				}
				sort.Strings(w)
				sort.Strings(g)
				if strings.Join(w, ",") != strings.Join(g, ",") {
					fail("references %v (inputs %q %q %q, block %q %q, main first=%v): Dependencies = %v", w, pick(0), pick(1), pick(2), pick(3), pick(4), mainFirst, conf.Integrations[mi].Dependencies)
					continue
				}
				for _, ig := range conf.Integrations {
					if !want[ig.Name] {
						continue
					}
					idx := false
					for _, ix := range ig.Table.Index {
						idx = idx || (len(ix) == 1 && ix[0] == "addr")
					}
					if !idx {
						fail("referenced integration %s has no index on the referenced column", ig.Name)
					}
				}
				for k, inp := range conf.Integrations[mi].Event.Inputs {
					if p := pick(k); p != "" && inp.Filter.Ref.Table != tableOf(p) {
						fail("input %d references %s but its table is %q", k, p, inp.Filter.Ref.Table)
					}
				}
				for k, bd := range conf.Integrations[mi].Block {
					if k < 2 {
						if p := pick(3 + k); p != "" && bd.Filter.Ref.Table != tableOf(p) {
							fail("block field %s references %s but its table is %q", bd.Name, p, bd.Filter.Ref.Table)
						}
					}
				}
			}
		}
	}
	declaredIndex, sharedTable = false, false
	// two dependents referencing the same column of the same integration: both keep the dependency
	for _, order := range [][]string{{"A", "d1", "d2"}, {"d1", "A", "d2"}, {"d1", "d2", "A"}} {
		var igs []config.Integration
		for _, n := range order {
			if n == "A" {
				igs = append(igs, refIG("A"))
				continue
			}
			igs = append(igs, config.Integration{Name: n, Enabled: true,
				Table: wpg.Table{Name: "t_" + n, Columns: []wpg.Column{{Name: "txto", Type: "bytea"}}},
				Block: []dig.BlockData{{Name: "tx_to", Column: "txto",
					Filter: dig.Filter{Op: "contains", Ref: dig.Ref{Integration: "A", Column: "addr"}}}}})
		}
		conf := config.Root{Integrations: igs}
		cases++
		if err := config.ValidateFix(&conf); err != nil {
			fail("two dependents %v: rejected: %v", order, err)
			continue
		}
		for _, ig := range conf.Integrations {
			if ig.Name != "A" && (len(ig.Dependencies) != 1 || ig.Dependencies[0] != "A") {
				fail("two dependents %v: %s has Dependencies %v", order, ig.Name, ig.Dependencies)
			}
		}
	}
	fmt.Printf("BOUNDED cases=%d failures=%d exhaustive=true\n", cases, fails)
	if fails > 0 {
		t.Fail()
	}
}
