package web

// Bounded stand-in for the dashboard path of C15 (labelled bounded): the real
// SaveIntegration handler with a nil database pool. A submission that reaches
// the INSERT dereferences the nil pool (recovered here and counted as "reached
// the database"); a rejected one answers with an error status before that.
// For every SQL-text position of an integration x 4 hostile strings the
// submission must be rejected; the same submission with a harmless string in
// that position must reach the database (so the stand-in cannot pass by
// rejecting everything).

import (
	"fmt"
	"net/http"
	"net/http/httptest"
	"strings"
	"testing"

	"github.com/indexsupply/shovel/shovel/config"
)

func submit(h *Handler, body string) (reached bool, status int) {
	defer func() {
		if r := recover(); r != nil {
			reached = true
		}
	}()
	req := httptest.NewRequest(http.MethodPost, "/save-integration", strings.NewReader(body))
	rec := httptest.NewRecorder()
	h.SaveIntegration(rec, req)
	return false, rec.Code
}

func TestVerifSaveIntegrationBounded(t *testing.T) {
	h := New(nil, &config.Root{}, nil)
	// @X@ marks the position under test; every other string is harmless
	tmpl := map[string]string{
		"integration name":           `{"name":"@X@","enabled":true,"table":{"name":"t","columns":[{"name":"c","type":"bytea"}]},"block":[{"name":"log_addr","column":"c"}]}`,
		"table name":                 `{"name":"i","enabled":true,"table":{"name":"@X@","columns":[{"name":"c","type":"bytea"}]},"block":[{"name":"log_addr","column":"c"}]}`,
		"column name":                `{"name":"i","enabled":true,"table":{"name":"t","columns":[{"name":"@X@","type":"bytea"}]},"block":[{"name":"log_addr","column":"c"}]}`,
		"column type":                `{"name":"i","enabled":true,"table":{"name":"t","columns":[{"name":"c","type":"@X@"}]},"block":[{"name":"log_addr","column":"c"}]}`,
		"unique column":              `{"name":"i","enabled":true,"table":{"name":"t","columns":[{"name":"c","type":"bytea"}],"unique":[["@X@"]]},"block":[{"name":"log_addr","column":"c"}]}`,
		"index column":               `{"name":"i","enabled":true,"table":{"name":"t","columns":[{"name":"c","type":"bytea"}],"index":[["@X@"]]},"block":[{"name":"log_addr","column":"c"}]}`,
		"notification column":        `{"name":"i","enabled":true,"table":{"name":"t","columns":[{"name":"c","type":"bytea"}]},"notification":{"columns":["@X@"]},"block":[{"name":"log_addr","column":"c"}]}`,
		"block filter_ref table":     `{"name":"i","enabled":true,"table":{"name":"t","columns":[{"name":"c","type":"bytea"}]},"block":[{"name":"log_addr","column":"c","filter_op":"contains","filter_ref":{"integration":"o","table":"@X@","column":"a"}}]}`,
		"block filter_ref column":    `{"name":"i","enabled":true,"table":{"name":"t","columns":[{"name":"c","type":"bytea"}]},"block":[{"name":"log_addr","column":"c","filter_op":"contains","filter_ref":{"integration":"o","table":"ot","column":"@X@"}}]}`,
		"input filter_ref table":     `{"name":"i","enabled":true,"table":{"name":"t","columns":[{"name":"c","type":"bytea"}]},"event":{"name":"E","type":"event","inputs":[{"name":"a","type":"address","column":"c","filter_op":"contains","filter_ref":{"integration":"o","table":"@X@","column":"a"}}]}}`,
		"component filter_ref table": `{"name":"i","enabled":true,"table":{"name":"t","columns":[{"name":"c","type":"bytea"}]},"event":{"name":"E","type":"event","inputs":[{"name":"s","type":"tuple","components":[{"name":"a","type":"address","column":"c","filter_op":"contains","filter_ref":{"integration":"o","table":"@X@","column":"a"}}]}]}}`,
	}
	hostile := []string{`x; drop table y`, `x'--`, `x\"y`, `x y`}
	cases, fails := 0, 0
	for pos, body := range tmpl {
		cases++
		if reached, status := submit(h, strings.ReplaceAll(body, "@X@", "ok_name")); !reached {
			fails++
			fmt.Printf("BOUNDED-FAIL control: a harmless %s does not reach the database (status %d): the stand-in would be vacuous\n", pos, status)
		}
		for _, hs := range hostile {
			cases++
			reached, status := submit(h, strings.ReplaceAll(body, "@X@", hs))
			if reached || status < 400 {
				fails++
				if fails <= 10 {
					fmt.Printf("BOUNDED-FAIL a submission with %q as %s is accepted by the dashboard (reached the database: %v, status %d)\n", hs, pos, reached, status)
				}
			}
		}
	}
	fmt.Printf("BOUNDED cases=%d failures=%d exhaustive=true\n", cases, fails)
	if fails > 0 {
		t.Fail()
	}
}
