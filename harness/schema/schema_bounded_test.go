package config_test

// Bounded stand-in for C16 (labelled bounded, never counted as proved): for a
// stated family of integration sets the real ValidateFix + DDL + dig.New +
// Integration.Insert are run on hand-built blocks; every written column must
// exist in the generated table (union for shared tables), every unique-key
// column must be a column, the rows of one insert must be pairwise distinct
// on the generated unique key, and a second insert of the same blocks must
// produce the same keys (so it collides). Configurations whose selected
// inputs, block fields or notification columns lack a column must be rejected.

import (
	"context"
	"encoding/binary"
	"fmt"
	"regexp"
	"sort"
	"strings"
	"sync"
	"testing"

	"github.com/holiman/uint256"
	"github.com/indexsupply/shovel/dig"
	"github.com/indexsupply/shovel/eth"
	"github.com/indexsupply/shovel/shovel/config"
	"github.com/indexsupply/shovel/wctx"
	"github.com/indexsupply/shovel/wpg"
	"github.com/jackc/pgx/v5"
	"github.com/jackc/pgx/v5/pgconn"
)

type sconn struct {
	cols []string
	rows [][]any
}

func (c *sconn) CopyFrom(_ context.Context, _ pgx.Identifier, cols []string, src pgx.CopyFromSource) (int64, error) {
	c.cols = cols
	var n int64
	for src.Next() {
		v, err := src.Values()
		if err != nil {
			return n, err
		}
		c.rows = append(c.rows, v)
		n++
	}
	return n, src.Err()
}
func (c *sconn) Exec(context.Context, string, ...any) (pgconn.CommandTag, error) {
	return pgconn.CommandTag{}, nil
}
func (c *sconn) QueryRow(context.Context, string, ...any) pgx.Row { return nil }
func (c *sconn) Query(context.Context, string, ...any) (pgx.Rows, error) {
	return nil, fmt.Errorf("no Query")
}

func w32(n uint64) []byte {
	b := make([]byte, 32)
	binary.BigEndian.PutUint64(b[24:], n)
	return b
}

func cat(bs ...[]byte) []byte {
	var out []byte
	for _, b := range bs {
		out = append(out, b...)
	}
	return out
}

type shape struct {
	name string
	ev   dig.Event
	cols []wpg.Column // user columns for the selected inputs
	data func(seed uint64) []byte
	rows int // rows one log produces
}

func addr(n uint64) []byte { b := make([]byte, 20); b[19] = byte(n); b[0] = 0xaa; return b }

func shapes() []shape {
	return []shape{
		{name: "flat-value", rows: 1,
			ev: dig.Event{Name: "Transfer", Type: "event", Inputs: []dig.Input{
				{Indexed: true, Name: "from", Type: "address"}, {Indexed: true, Name: "to", Type: "address"},
				{Name: "value", Type: "uint256", Column: "v"}}},
			cols: []wpg.Column{{Name: "v", Type: "numeric"}},
			data: func(s uint64) []byte { return w32(100 + s) }},
		{name: "flat-indexed-only", rows: 1,
			ev: dig.Event{Name: "Transfer", Type: "event", Inputs: []dig.Input{
				{Indexed: true, Name: "from", Type: "address"}, {Indexed: true, Name: "to", Type: "address", Column: "t"},
				{Name: "value", Type: "uint256"}}},
			cols: []wpg.Column{{Name: "t", Type: "bytea"}},
			data: func(s uint64) []byte { return w32(100 + s) }},
		{name: "array", rows: 3,
			ev: dig.Event{Name: "Batch", Type: "event", Inputs: []dig.Input{
				{Indexed: true, Name: "from", Type: "address"}, {Indexed: true, Name: "to", Type: "address"},
				{Name: "vals", Type: "uint256[]", Column: "v"}}},
			cols: []wpg.Column{{Name: "v", Type: "numeric"}},
			// all elements equal: only abi_idx tells the rows apart
			data: func(s uint64) []byte { return cat(w32(32), w32(3), w32(7), w32(7), w32(7)) }},
		{name: "tuple-array", rows: 2,
			ev: dig.Event{Name: "Items", Type: "event", Inputs: []dig.Input{
				{Indexed: true, Name: "from", Type: "address"}, {Indexed: true, Name: "to", Type: "address"},
				{Name: "items", Type: "tuple[]", Components: []dig.Input{
					{Name: "a", Type: "uint256", Column: "a"}, {Name: "b", Type: "uint256", Column: "b"}}}}},
			cols: []wpg.Column{{Name: "a", Type: "numeric"}, {Name: "b", Type: "numeric"}},
			data: func(s uint64) []byte { return cat(w32(32), w32(2), w32(5), w32(6), w32(5), w32(6)) }},
	}
}

const (
	nBlocks = 2
	nTxs    = 2
	nLogs   = 2
	nTraces = 2
)

func mkBlocks(sh *shape) []eth.Block {
	var out []eth.Block
	for n := uint64(0); n < nBlocks; n++ {
		b := eth.Block{Header: eth.Header{Number: eth.Uint64(500 + n), Hash: cat(w32(0xb0), nil)[:32], Time: eth.Uint64(1700000000)}}
		b.Header.Hash = w32(0xb000 + n)
		for i := uint64(0); i < nTxs; i++ {
			tx := eth.Tx{Idx: eth.Uint64(i), PrecompHash: w32(0xc000 + 16*n + i), From: addr(1), To: addr(2)}
			tx.Value = *uint256.NewInt(9)
			if sh != nil {
				for l := uint64(0); l < nLogs; l++ {
					lg := eth.Log{Idx: eth.Uint64(10*i + l), Address: addr(3), Data: sh.data(l)}
					// identical topics and data across logs: only the identity columns differ
					lg.Topics = []eth.Bytes{sh.ev.SignatureHash(), cat(make([]byte, 12), addr(4)), cat(make([]byte, 12), addr(5))}
					tx.Logs = append(tx.Logs, lg)
				}
			}
			for k := uint64(0); k < nTraces; k++ {
				tx.TraceActions = append(tx.TraceActions, eth.TraceAction{Idx: k, From: addr(6), To: addr(7), CallType: "call"})
			}
			b.Txs = append(b.Txs, tx)
		}
		out = append(out, b)
	}
	return out
}

// schemaPG applies the statements of config.Migrate to an in-memory catalogue
// (create table if not exists / alter table add column if not exists) and
// answers wpg.Diff's information_schema query from it.
type schemaPG struct {
	sconn
	tables map[string][]string
	log    []string
}

// PostgreSQL's reserved key words (documentation, appendix "SQL Key Words",
// category "reserved", releases up to 15): as a column name each of them is a
// syntax error unless it is double-quoted. The stand-in database refuses
// statements that use one unquoted, as the server would.
var pgReserved = func() map[string]bool {
	m := map[string]bool{}
	for _, w := range strings.Fields(`all analyse analyze and any array as asc asymmetric both case cast check collate column constraint create current_catalog current_date current_role current_time current_timestamp current_user default deferrable desc distinct do else end except false fetch for foreign from grant group having in initially intersect into lateral leading limit localtime localtimestamp not null offset on only or order placing primary references returning select session_user some symmetric table then to trailing true union unique user using variadic when where window with`) {
		m[w] = true
	}
	return m
}()

func unquotedReserved(tok string) bool {
	return !strings.HasPrefix(tok, `"`) && pgReserved[strings.ToLower(tok)]
}

var indexRe = regexp.MustCompile(`^create (unique )?index if not exists \S+ on \S+ \((.*)\)$`)

var alterRe = regexp.MustCompile(`^alter table (\S+) add column if not exists (\S+) `)

func (p *schemaPG) Exec(_ context.Context, q string, _ ...any) (pgconn.CommandTag, error) {
	p.log = append(p.log, q)
	if m := createRe.FindStringSubmatch(q); m != nil {
		for _, c := range strings.Split(m[2], ", ") {
			if f := strings.Fields(c); len(f) > 0 && unquotedReserved(f[0]) {
				return pgconn.CommandTag{}, fmt.Errorf("syntax error at or near %q", f[0])
			}
		}
	}
	if m := indexRe.FindStringSubmatch(q); m != nil {
		for _, c := range strings.Split(m[2], ", ") {
			if unquotedReserved(strings.TrimSpace(c)) {
				return pgconn.CommandTag{}, fmt.Errorf("syntax error at or near %q", c)
			}
		}
	}
	if m := alterRe.FindStringSubmatch(q); m != nil && unquotedReserved(m[2]) {
		return pgconn.CommandTag{}, fmt.Errorf("syntax error at or near %q", m[2])
	}
	if m := createRe.FindStringSubmatch(q); m != nil {
		if _, ok := p.tables[m[1]]; !ok {
			var cols []string
			for _, c := range strings.Split(m[2], ", ") {
				if f := strings.Fields(c); len(f) > 0 {
					cols = append(cols, strings.Trim(f[0], `"`))
				}
			}
			p.tables[m[1]] = cols
		}
	}
	if m := alterRe.FindStringSubmatch(q); m != nil {
		c := strings.Trim(m[2], `"`)
		have := false
		for _, x := range p.tables[m[1]] {
			have = have || x == c
		}
		if !have {
			p.tables[m[1]] = append(p.tables[m[1]], c)
		}
	}
	return pgconn.CommandTag{}, nil
}

type colRows struct {
	names []string
	i     int
}

func (r *colRows) Close()                        {}
func (r *colRows) Err() error                    { return nil }
func (r *colRows) CommandTag() pgconn.CommandTag { return pgconn.CommandTag{} }
func (r *colRows) FieldDescriptions() []pgconn.FieldDescription {
	return []pgconn.FieldDescription{{Name: "column_name"}, {Name: "data_type"}}
}
func (r *colRows) Next() bool { r.i++; return r.i <= len(r.names) }
func (r *colRows) Scan(dest ...any) error {
	if len(dest) == 1 {
		if rs, ok := dest[0].(pgx.RowScanner); ok {
			return rs.ScanRow(r)
		}
	}
	vals := []string{r.names[r.i-1], "text"}
	for k, d := range dest {
		if sp, ok := d.(*string); ok && k < len(vals) {
			*sp = vals[k]
		}
	}
	return nil
}
func (r *colRows) Values() ([]any, error) { return []any{r.names[r.i-1], "text"}, nil }
func (r *colRows) RawValues() [][]byte    { return nil }
func (r *colRows) Conn() *pgx.Conn        { return nil }

func (p *schemaPG) Query(_ context.Context, q string, args ...any) (pgx.Rows, error) {
	if strings.Contains(q, "information_schema.columns") && len(args) == 1 {
		return &colRows{names: append([]string(nil), p.tables[fmt.Sprint(args[0])]...)}, nil
	}
	return nil, fmt.Errorf("no Query")
}

var createRe = regexp.MustCompile(`^create table if not exists (\S+)\((.*)\)$`)

// columns per table as generated by DDL
func ddlColumns(stmts []string) map[string]map[string]bool {
	out := map[string]map[string]bool{}
	for _, s := range stmts {
		m := createRe.FindStringSubmatch(s)
		if m == nil {
			continue
		}
		cols := map[string]bool{}
		for _, c := range strings.Split(m[2], ", ") {
			f := strings.Fields(c)
			if len(f) > 0 {
				cols[strings.Trim(f[0], `"`)] = true
			}
		}
		out[m[1]] = cols
	}
	return out
}

type igSpec struct {
	desc  string
	ig    config.Integration
	shape *shape
	mode  string // log | tx | trace
	nrows int
}

func mkIG(name, table string, sh *shape, mode string, extra []wpg.Column, userIdentity []string, reverse bool) igSpec {
	ig := config.Integration{Name: name, Enabled: true, Table: wpg.Table{Name: table}}
	s := igSpec{desc: name, mode: mode}
	switch mode {
	case "log":
		ig.Event = sh.ev
		ig.Table.Columns = append(ig.Table.Columns, sh.cols...)
		s.shape = sh
		s.nrows = nBlocks * nTxs * nLogs * sh.rows
		s.desc += "/" + sh.name
	case "tx":
		ig.Block = []dig.BlockData{{Name: "tx_hash", Column: "txh"}, {Name: "tx_value", Column: "txv"}}
		ig.Table.Columns = append(ig.Table.Columns, wpg.Column{Name: "txh", Type: "bytea"}, wpg.Column{Name: "txv", Type: "numeric"})
		s.nrows = nBlocks * nTxs
	case "trace":
		ig.Block = []dig.BlockData{{Name: "trace_action_from", Column: "taf"}, {Name: "trace_action_call_type", Column: "tact"}}
		ig.Table.Columns = append(ig.Table.Columns, wpg.Column{Name: "taf", Type: "bytea"}, wpg.Column{Name: "tact", Type: "text"})
		s.nrows = nBlocks * nTxs * nTraces
	}
	ig.Table.Columns = append(ig.Table.Columns, extra...)
	for _, u := range userIdentity { // identity column supplied by the user
		ig.Table.Columns = append(ig.Table.Columns, wpg.Column{Name: u, Type: "numeric"})
		ig.Block = append(ig.Block, dig.BlockData{Name: u, Column: u})
	}
	if reverse {
		c := ig.Table.Columns
		for i, j := 0, len(c)-1; i < j; i, j = i+1, j-1 {
			c[i], c[j] = c[j], c[i]
		}
	}
	s.ig = ig
	return s
}

func keyOf(row []any, cols []string, key []string) (string, error) {
	var parts []string
	for _, k := range key {
		idx := -1
		for i, c := range cols {
			if c == k {
				idx = i
			}
		}
		if idx < 0 {
			return "", fmt.Errorf("unique-key column %q is not written", k)
		}
		parts = append(parts, fmt.Sprintf("%v", row[idx]))
	}
	return strings.Join(parts, "|"), nil
}

func runConf(descr string, specs []igSpec) []string {
	var fails []string
	conf := config.Root{}
	for _, s := range specs {
		conf.Integrations = append(conf.Integrations, s.ig)
	}
	if err := config.ValidateFix(&conf); err != nil {
		return []string{fmt.Sprintf("%s: ValidateFix rejected an acceptable configuration: %v", descr, err)}
	}
	ddl := ddlColumns(config.DDL(conf))
	ctx := wctx.WithSrcName(wctx.WithChainID(context.Background(), 7), "fake")
	// the migration path: every column an integration writes exists afterwards,
	// also when the table already existed with fewer columns
	for _, pre := range []bool{false, true} {
		pg := &schemaPG{tables: map[string][]string{}}
		if pre {
			for _, ig := range conf.Integrations {
				pg.tables[ig.Table.Name] = []string{"block_num"}
			}
		}
		if err := config.Migrate(ctx, pg, conf); err != nil {
			fails = append(fails, fmt.Sprintf("%s: Migrate: %v", descr, err))
			continue
		}
		for _, ig := range conf.Integrations {
			have := map[string]bool{}
			for _, c := range pg.tables[ig.Table.Name] {
				have[c] = true
			}
			for _, c := range ig.Table.Columns {
				if !have[c.Name] {
					fails = append(fails, fmt.Sprintf("%s/%s: after Migrate (existing table=%v) column %q of table %q does not exist", descr, ig.Name, pre, c.Name, ig.Table.Name))
				}
			}
		}
	}
	for i, s := range specs {
		ig := conf.Integrations[i]
		tcols := ddl[ig.Table.Name]
		if tcols == nil {
			fails = append(fails, fmt.Sprintf("%s/%s: no create table statement for %q", descr, s.desc, ig.Table.Name))
			continue
		}
		for _, c := range ig.Table.Columns {
			if !tcols[c.Name] {
				fails = append(fails, fmt.Sprintf("%s/%s: column %q of the integration is not in the generated table %q", descr, s.desc, c.Name, ig.Table.Name))
			}
		}
		if len(ig.Table.Unique) == 0 {
			fails = append(fails, fmt.Sprintf("%s/%s: no unique key generated", descr, s.desc))
			continue
		}
		key := ig.Table.Unique[0]
		for _, k := range key {
			if !tcols[k] {
				fails = append(fails, fmt.Sprintf("%s/%s: unique-key column %q is not a table column", descr, s.desc, k))
			}
		}
		if s.nrows < 0 {
			continue
		}
		dg, err := dig.New(ig.Name, ig.Event, ig.Block, ig.Table, ig.Notification, ig.FilterAGG)
		if err != nil {
			fails = append(fails, fmt.Sprintf("%s/%s: dig.New: %v", descr, s.desc, err))
			continue
		}
		var first map[string]bool
		for round := 0; round < 2; round++ {
			var conn sconn
			var ierr error
			func() {
				defer func() {
					if r := recover(); r != nil {
						ierr = fmt.Errorf("panic: %v", r)
					}
				}()
				_, ierr = dg.Insert(ctx, &sync.Mutex{}, &conn, mkBlocks(s.shape))
			}()
			if ierr != nil {
				fails = append(fails, fmt.Sprintf("%s/%s: Insert: %v", descr, s.desc, ierr))
				break
			}
			for _, c := range conn.cols {
				if !tcols[c] {
					fails = append(fails, fmt.Sprintf("%s/%s: written column %q does not exist in table %q", descr, s.desc, c, ig.Table.Name))
				}
			}
			if len(conn.rows) != s.nrows {
				fails = append(fails, fmt.Sprintf("%s/%s: %d rows emitted, want %d", descr, s.desc, len(conn.rows), s.nrows))
			}
			keys := map[string]bool{}
			for _, r := range conn.rows {
				k, err := keyOf(r, conn.cols, key)
				if err != nil {
					fails = append(fails, fmt.Sprintf("%s/%s: %v (key %v, written %v)", descr, s.desc, err, key, conn.cols))
					break
				}
				if keys[k] {
					fails = append(fails, fmt.Sprintf("%s/%s: two different rows share the unique key %v = %s", descr, s.desc, key, k))
					break
				}
				keys[k] = true
			}
			if round == 0 {
				first = keys
			} else {
				var a, b []string
				for k := range first {
					a = append(a, k)
				}
				for k := range keys {
					b = append(b, k)
				}
				sort.Strings(a)
				sort.Strings(b)
				if strings.Join(a, ";") != strings.Join(b, ";") {
					fails = append(fails, fmt.Sprintf("%s/%s: re-insert of the same blocks does not produce the same keys", descr, s.desc))
				}
			}
		}
	}
	return fails
}

func TestVerifSchemaBounded(t *testing.T) {
	cases, nfail := 0, 0
	report := func(fs []string) {
		cases++
		if len(fs) > 0 {
			nfail++
			for i, f := range fs {
				if i < 3 && nfail <= 12 {
					fmt.Printf("BOUNDED-FAIL %s\n", f)
				}
			}
		}
	}
	shs := shapes()
	type variant struct {
		extra []wpg.Column
		user  []string
		rev   bool
	}
	variants := []variant{
		{}, {rev: true},
		{user: []string{"block_num"}}, {user: []string{"log_idx"}, rev: true},
		{extra: []wpg.Column{{Name: "note", Type: "text"}}},
	}
	var singles []func(name, table string, v variant) igSpec
	for i := range shs {
		sh := &shs[i]
		singles = append(singles, func(name, table string, v variant) igSpec {
			return mkIG(name, table, sh, "log", v.extra, v.user, v.rev)
		})
	}
	singles = append(singles, func(name, table string, v variant) igSpec {
		var u []string
		for _, x := range v.user {
			if x != "log_idx" {
				u = append(u, x)
			}
		}
		return mkIG(name, table, nil, "tx", v.extra, u, v.rev)
	}, func(name, table string, v variant) igSpec {
		var u []string
		for _, x := range v.user {
			if x != "log_idx" {
				u = append(u, x)
			}
		}
		return mkIG(name, table, nil, "trace", v.extra, u, v.rev)
	})
	// single integrations
	for si, mk := range singles {
		for vi, v := range variants {
			report(runConf(fmt.Sprintf("single#%d.%d", si, vi), []igSpec{mk("a", "t", v)}))
		}
	}
	// two integrations sharing one table, in both orders, and on separate tables
	for i, mk1 := range singles {
		for j, mk2 := range singles {
			if i == j {
				continue
			}
			report(runConf(fmt.Sprintf("shared#%d+%d", i, j), []igSpec{mk1("a", "shared", variants[0]), mk2("b", "shared", variants[4])}))
			report(runConf(fmt.Sprintf("separate#%d+%d", i, j), []igSpec{mk1("a", "t1", variants[2]), mk2("b", "t2", variants[1])}))
		}
	}
	// two integrations with the same NUMBER of columns but different names on one table
	for i, mk1 := range singles {
		for j, mk2 := range singles {
			if i < j {
				report(runConf(fmt.Sprintf("shared-same-count#%d+%d", i, j), []igSpec{mk1("a", "shared", variants[0]), mk2("b", "shared", variants[0])}))
			}
		}
	}
	// a user column named like a reserved key word of the database (every one of
	// them, lower and upper case): the definitions and migrations must quote it
	{
		var words []string
		for w := range pgReserved {
			words = append(words, w)
		}
		sort.Strings(words)
		for _, w := range words {
			for _, name := range []string{w, strings.ToUpper(w)} {
				v := variant{extra: []wpg.Column{{Name: name, Type: "text"}}}
				report(runConf("reserved-word-column "+name, []igSpec{singles[0]("a", "t", v)}))
			}
		}
	}
	// a filter reference must not disturb the referenced integration's key: the
	// referenced column holds the same value in every row
	for _, onBlock := range []bool{true, false} {
		ref := mkIG("r", "t_r", nil, "tx", nil, nil, false)
		dep := mkIG("d", "t_d", &shs[0], "log", []wpg.Column{{Name: "txto", Type: "bytea"}}, nil, false)
		f := dig.Filter{Op: "contains", Ref: dig.Ref{Integration: "r", Column: "txv"}}
		if onBlock {
			dep.ig.Block = append(dep.ig.Block, dig.BlockData{Name: "tx_to", Column: "txto", Filter: f})
		} else {
			dep.ig.Block = append(dep.ig.Block, dig.BlockData{Name: "tx_to", Column: "txto"})
			dep.ig.Event.Inputs = append([]dig.Input(nil), dep.ig.Event.Inputs...)
			dep.ig.Event.Inputs[2].Filter = f
		}
		// only the referenced integration is exercised row by row (the dependent's
		// filter would query the database)
		dep.nrows = -1
		report(runConf(fmt.Sprintf("filter-ref onBlock=%v", onBlock), []igSpec{ref, dep}))
	}
	// configurations that must be rejected
	rej := func(desc string, mut func(ig *config.Integration)) {
		s := mkIG("a", "t", &shs[0], "log", nil, nil, false)
		mut(&s.ig)
		conf := config.Root{Integrations: []config.Integration{s.ig}}
		cases++
		if err := config.ValidateFix(&conf); err == nil {
			nfail++
			fmt.Printf("BOUNDED-FAIL reject/%s: accepted\n", desc)
		}
	}
	rej("selected input without column", func(ig *config.Integration) { ig.Table.Columns = nil })
	rej("block field without column", func(ig *config.Integration) {
		ig.Block = append(ig.Block, dig.BlockData{Name: "tx_hash", Column: "missing"})
	})
	rej("block field with empty column", func(ig *config.Integration) {
		ig.Block = append(ig.Block, dig.BlockData{Name: "tx_hash"})
	})
	rej("notification column without column", func(ig *config.Integration) {
		ig.Notification.Columns = []string{"v", "nope"}
	})
	rej("nested selected input without column", func(ig *config.Integration) {
		ig.Event = shs[3].ev
	})
	fmt.Printf("BOUNDED cases=%d failures=%d exhaustive=true\n", cases, nfail)
	if nfail > 0 {
		t.Fail()
	}
}
