package shovel

import "testing"

// F11 (C03): a reorg seen after rows were written with batch size > 1.
// Positions {4, 8} are recorded for blocks 1..8; blocks 7 and 8 are then
// replaced. The unwinding deletes position 8 and falls back to position 4.
// Every row above position 4 has to go; the defective code kept rows 5..7
// (7 being orphaned), so the next step collided with them forever.
func TestF11ReorgWithBatch(t *testing.T) {
	quiet()
	sc := script{"reorg-batch4", 4, func(w *world) {
		w.chain.grow(8)
		w.drive()
		w.chain.reorg(7, 9)
		w.drive()
		w.chain.grow(12)
		w.drive()
	}}
	w, err := runScript(sc, nil)
	if err != nil {
		t.Fatal(err)
	}
	t.Logf("final state: %s", w.db.snapshot())
	report(t, "F11: reorg with batch 4", w)
}
