package shovel
