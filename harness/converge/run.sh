#!/bin/sh
# Runs the real Task.Converge against an in-process PostgreSQL wire-protocol
# fake (written by an independent sub-agent for a seeded-defect demonstration)
# on the tree given as $1 (default /repo). usage: run.sh [repo] [test-regex]
set -u
export GOFLAGS=-mod=mod GOPROXY=off GOSUMDB=off GOTOOLCHAIN=local
ROOT=${1:-/repo}
RUN=${2:-TestF11ReorgWithBatch}
H=/verif/harness/converge
T=$(mktemp -d /tmp/verif-converge.XXXXXX)
cat > $T/ov.json <<JSON
{"Replace": {
  "$ROOT/shovel/task_test.go": "$H/empty_test.go",
  "$ROOT/shovel/integration_test.go": "$H/empty_test.go",
  "$ROOT/shovel/zz_pgfake_world_test.go": "$H/pgfake_world_test.go",
  "$ROOT/shovel/zz_f11_test.go": "$H/f11_test.go"
}}
JSON
(cd $ROOT && go test -overlay $T/ov.json -vet=off -count=1 -timeout 300s -run "$RUN" -v ./shovel/)
rc=$?
rm -rf $T
exit $rc
