package shovel

// C02 demonstration harness.
//
// Runs the REAL Task.Converge (real pgxpool.Pool, real pgx transactions,
// real dig.Integration Insert/Delete incl. binary COPY) against
//
//   - fakeDB: an in-process PostgreSQL wire-protocol server (pgproto3.Backend
//     over net.Pipe) that understands exactly the statements a step issues,
//     implements read-committed transactions (begin/commit/rollback, aborted
//     transaction state, commit of an aborted tx == rollback), autocommit for
//     statements outside a transaction, the unique index
//     shovel.task_updates(ig_name, src_name, num) and the default unique
//     index of an integration table (ig_name, src_name, block_num, tx_idx);
//   - fakeChain: a Source with growth and reorgs;
//   - injector: numbers every I/O operation of a run (every SQL statement incl.
//     begin/commit/COPY/describe, every Source call) and injects a fault of a
//     chosen kind at a chosen operation.
//
// Checked (property C02):
//   Inv  - in every committed database state (checked after EVERY change of
//          the committed state, i.e. what another session could observe, and
//          after every step): rows cover exactly the blocks start..position,
//          no row beyond the position, every covered block has exactly its
//          rows, the recorded hashes form a chain.
//   Step - a failed step leaves the previous state or a truncation of it.
//   End  - after the faults clear, retrying reaches exactly the fault-free
//          result (rows == rows of the canonical chain, position == head).

import (
	"bytes"
	"context"
	"crypto/sha256"
	"encoding/binary"
	"encoding/hex"
	"errors"
	"fmt"
	"io"
	"log/slog"
	"math/rand"
	"net"
	"regexp"
	"sort"
	"strconv"
	"strings"
	"sync"
	"testing"
	"time"

	"github.com/indexsupply/shovel/dig"
	"github.com/indexsupply/shovel/eth"
	"github.com/indexsupply/shovel/jrpc2"
	"github.com/indexsupply/shovel/shovel/config"
	"github.com/indexsupply/shovel/shovel/glf"
	"github.com/indexsupply/shovel/wctx"
	"github.com/indexsupply/shovel/wpg"

	"github.com/jackc/pgx/v5/pgproto3"
	"github.com/jackc/pgx/v5/pgxpool"
)

const (
	demoSrc   = "main"
	demoIG    = "demo_ig"
	demoTable = "demo_rows"
	demoStart = uint64(1)
)

// ---------------------------------------------------------------- faults

type faultKind int

const (
	fNone       faultKind = iota
	fErr                  // error reply
	fDropBefore           // connection drop, operation has no effect
	fDropAfter            // operation takes effect, connection drops before the reply
	fDieBefore            // process death (all connections dropped, memory discarded), operation has no effect
	fDieAfter             // operation takes effect, then process death
	fDead                 // (internal) process already dead
)

var allKinds = []faultKind{fErr, fDropBefore, fDropAfter, fDieBefore, fDieAfter}

func (k faultKind) String() string {
	return [...]string{"none", "error-reply", "conn-drop-before", "conn-drop-after", "death-before", "death-after", "dead"}[k]
}

func (k faultKind) after() bool { return k == fDropAfter || k == fDieAfter }

type injector struct {
	mu     sync.Mutex
	n      int
	plan   func(n int, desc string) faultKind
	dead   bool
	trace  []string
	fired  []string
	fAfter bool // an "after" kind fired since last resetStep
	onDie  func()
}

func (in *injector) next(desc string) faultKind {
	in.mu.Lock()
	if in.dead {
		in.mu.Unlock()
		return fDead
	}
	in.n++
	n := in.n
	k := fNone
	if in.plan != nil {
		k = in.plan(n, desc)
	}
	in.trace = append(in.trace, fmt.Sprintf("%3d %s", n, desc))
	if k != fNone {
		in.fired = append(in.fired, fmt.Sprintf("op %d (%s): %s", n, desc, k))
		if k.after() {
			in.fAfter = true
		}
	}
	in.mu.Unlock()
	return k
}

func (in *injector) die() {
	in.mu.Lock()
	in.dead = true
	f := in.onDie
	in.mu.Unlock()
	if f != nil {
		f()
	}
}

func (in *injector) isDead() bool {
	in.mu.Lock()
	defer in.mu.Unlock()
	return in.dead
}

// ---------------------------------------------------------------- chain

type fblock struct {
	num          uint64
	hash, parent []byte
	ntx          int
}

type fakeChain struct {
	mu     sync.Mutex
	inj    *injector
	blocks []fblock // index == num, blocks[0] is genesis
	byHash map[string]fblock
	fork   int
}

func newChain(inj *injector) *fakeChain {
	c := &fakeChain{inj: inj, byHash: map[string]fblock{}}
	c.blocks = append(c.blocks, c.mk(0, make([]byte, 32)))
	return c
}

func (c *fakeChain) mk(num uint64, parent []byte) fblock {
	h := sha256.Sum256([]byte(fmt.Sprintf("block-%d-fork-%d", num, c.fork)))
	b := fblock{num: num, hash: h[:], parent: parent, ntx: 1 + int((num+uint64(c.fork))%2)}
	c.byHash[hex.EncodeToString(b.hash)] = b
	return b
}

func (c *fakeChain) grow(head uint64) {
	c.mu.Lock()
	defer c.mu.Unlock()
	for uint64(len(c.blocks)-1) < head {
		p := c.blocks[len(c.blocks)-1]
		c.blocks = append(c.blocks, c.mk(p.num+1, p.hash))
	}
}

// replaces blocks from..head by a new fork that reaches newHead
func (c *fakeChain) reorg(from, newHead uint64) {
	c.mu.Lock()
	c.fork++
	c.blocks = c.blocks[:from]
	c.mu.Unlock()
	c.grow(newHead)
}

func (c *fakeChain) head() fblock {
	c.mu.Lock()
	defer c.mu.Unlock()
	return c.blocks[len(c.blocks)-1]
}

func (c *fakeChain) rpc(desc string) error {
	switch k := c.inj.next("rpc " + desc); k {
	case fNone:
		return nil
	case fDieBefore, fDieAfter:
		c.inj.die()
		return fmt.Errorf("rpc %s: process died", desc)
	default:
		return fmt.Errorf("rpc %s: injected %s", desc, k)
	}
}

func (c *fakeChain) Get(ctx context.Context, url string, f *glf.Filter, start, limit uint64) ([]eth.Block, error) {
	if err := c.rpc(fmt.Sprintf("get %d+%d", start, limit)); err != nil {
		return nil, err
	}
	c.mu.Lock()
	defer c.mu.Unlock()
	var res []eth.Block
	for n := start; n < start+limit; n++ {
		if n >= uint64(len(c.blocks)) {
			return nil, fmt.Errorf("block %d not found", n)
		}
		fb := c.blocks[n]
		b := eth.Block{}
		b.Header.Number = eth.Uint64(fb.num)
		b.Header.Hash = append([]byte(nil), fb.hash...)
		b.Header.Parent = append([]byte(nil), fb.parent...)
		for i := 0; i < fb.ntx; i++ {
			b.Txs = append(b.Txs, eth.Tx{Idx: eth.Uint64(i)})
		}
		res = append(res, b)
	}
	return res, nil
}

func (c *fakeChain) Latest(ctx context.Context, url string, n uint64) (uint64, []byte, error) {
	if err := c.rpc("latest"); err != nil {
		return 0, nil, err
	}
	h := c.head()
	return h.num, h.hash, nil
}

func (c *fakeChain) Hash(ctx context.Context, url string, n uint64) ([]byte, error) {
	if err := c.rpc(fmt.Sprintf("hash %d", n)); err != nil {
		return nil, err
	}
	c.mu.Lock()
	defer c.mu.Unlock()
	if n >= uint64(len(c.blocks)) {
		return nil, fmt.Errorf("block %d not found", n)
	}
	return c.blocks[n].hash, nil
}

func (c *fakeChain) NextURL() *jrpc2.URL { return jrpc2.MustURL("http://fake-node.invalid") }

// ---------------------------------------------------------------- database state

type posRow struct {
	src, ig string
	num     uint64
	hash    string
}

type dataRow struct {
	table, src, ig string
	blockNum       uint64
	blockHash      string
	txIdx          uint64
}

type dbState struct {
	pos  []posRow
	rows []dataRow
}

func (s dbState) clone() dbState {
	return dbState{
		pos:  append([]posRow(nil), s.pos...),
		rows: append([]dataRow(nil), s.rows...),
	}
}

func (s dbState) String() string {
	s = s.clone()
	sort.Slice(s.pos, func(i, j int) bool { return s.pos[i].num < s.pos[j].num })
	sort.Slice(s.rows, func(i, j int) bool {
		a, b := s.rows[i], s.rows[j]
		if a.blockNum != b.blockNum {
			return a.blockNum < b.blockNum
		}
		if a.blockHash != b.blockHash {
			return a.blockHash < b.blockHash
		}
		return a.txIdx < b.txIdx
	})
	var sb strings.Builder
	sb.WriteString("positions[")
	for _, p := range s.pos {
		fmt.Fprintf(&sb, " %d:%.6s", p.num, p.hash)
	}
	sb.WriteString(" ] rows[")
	for _, r := range s.rows {
		fmt.Fprintf(&sb, " %d:%.6s/tx%d", r.blockNum, r.blockHash, r.txIdx)
	}
	sb.WriteString(" ]")
	return sb.String()
}

type pgErr struct{ code, msg string }

func (e *pgErr) Error() string { return e.code + ": " + e.msg }

func (s *dbState) insertPos(p posRow) error {
	for _, q := range s.pos {
		if q.src == p.src && q.ig == p.ig && q.num == p.num {
			return &pgErr{"23505", "duplicate key value violates unique constraint \"task_src_name_num_idx\""}
		}
	}
	s.pos = append(s.pos, p)
	return nil
}

func (s *dbState) insertRow(r dataRow) error {
	for _, q := range s.rows {
		if q.table == r.table && q.src == r.src && q.ig == r.ig && q.blockNum == r.blockNum && q.txIdx == r.txIdx {
			return &pgErr{"23505", "duplicate key value violates unique constraint \"u_" + r.table + "\""}
		}
	}
	s.rows = append(s.rows, r)
	return nil
}

type cond struct{ col, op, val string }

func cmpNum(a uint64, op string, b uint64) bool {
	switch op {
	case "=":
		return a == b
	case ">=":
		return a >= b
	case ">":
		return a > b
	case "<=":
		return a <= b
	case "<":
		return a < b
	case "<>", "!=":
		return a != b
	}
	panic("fake: unknown operator " + op)
}

func cmpStr(a, op, b string) bool {
	switch op {
	case "=":
		return a == b
	case "<>", "!=":
		return a != b
	}
	panic("fake: unsupported string operator " + op)
}

func matchConds(cs []cond, strs map[string]string, nums map[string]uint64) (bool, error) {
	for _, c := range cs {
		if v, ok := nums[c.col]; ok {
			n, err := strconv.ParseUint(c.val, 10, 64)
			if err != nil {
				return false, &pgErr{"22P02", "invalid number " + c.val}
			}
			if !cmpNum(v, c.op, n) {
				return false, nil
			}
			continue
		}
		if v, ok := strs[c.col]; ok {
			if !cmpStr(v, c.op, c.val) {
				return false, nil
			}
			continue
		}
		return false, &pgErr{"42703", "column " + c.col + " does not exist"}
	}
	return true, nil
}

func (p posRow) match(cs []cond) (bool, error) {
	return matchConds(cs,
		map[string]string{"src_name": p.src, "ig_name": p.ig},
		map[string]uint64{"num": p.num})
}

func (r dataRow) match(cs []cond) (bool, error) {
	return matchConds(cs,
		map[string]string{"src_name": r.src, "ig_name": r.ig},
		map[string]uint64{"block_num": r.blockNum, "tx_idx": r.txIdx})
}

type mutation func(*dbState) (int, error)

// ---------------------------------------------------------------- fake postgres

type fakeDB struct {
	mu      sync.Mutex
	st      dbState
	inj     *injector
	conns   map[net.Conn]struct{}
	observe func(desc string, st dbState)
	unsupp  []string
}

func newFakeDB(inj *injector) *fakeDB {
	db := &fakeDB{inj: inj, conns: map[net.Conn]struct{}{}}
	return db
}

func (db *fakeDB) snapshot() dbState {
	db.mu.Lock()
	defer db.mu.Unlock()
	return db.st.clone()
}

func (db *fakeDB) killAll() {
	db.mu.Lock()
	defer db.mu.Unlock()
	for c := range db.conns {
		c.Close()
	}
	db.conns = map[net.Conn]struct{}{}
}

func (db *fakeDB) dial(ctx context.Context, network, addr string) (net.Conn, error) {
	if db.inj.isDead() {
		return nil, errors.New("fake: process is dead")
	}
	c, s := net.Pipe()
	db.mu.Lock()
	db.conns[s] = struct{}{}
	db.mu.Unlock()
	go (&session{db: db, c: s}).serve()
	return c, nil
}

type session struct {
	db *fakeDB
	c  net.Conn
	be *pgproto3.Backend

	inTx, aborted bool
	muts          []mutation
	descs         []string

	skipToSync bool
	parsed     string

	copying   bool
	copyFault faultKind
	copyTable string
	copyCols  []string
	copyBuf   []byte
}

func (s *session) status() byte {
	switch {
	case s.inTx && s.aborted:
		return 'E'
	case s.inTx:
		return 'T'
	}
	return 'I'
}

func (s *session) close() {
	s.c.Close()
	s.db.mu.Lock()
	delete(s.db.conns, s.c)
	s.db.mu.Unlock()
}

func (s *session) sendErr(err error) {
	code, msg := "XX000", err.Error()
	var pe *pgErr
	if errors.As(err, &pe) {
		code, msg = pe.code, pe.msg
	}
	s.be.Send(&pgproto3.ErrorResponse{Severity: "ERROR", SeverityUnlocalized: "ERROR", Code: code, Message: msg})
}

func (s *session) ready() error {
	s.be.Send(&pgproto3.ReadyForQuery{TxStatus: s.status()})
	return s.be.Flush()
}

func (s *session) serve() {
	defer s.close()
	s.be = pgproto3.NewBackend(s.c, s.c)
	if _, err := s.be.ReceiveStartupMessage(); err != nil {
		return
	}
	s.be.Send(&pgproto3.AuthenticationOk{})
	s.be.Send(&pgproto3.ParameterStatus{Name: "server_version", Value: "15.0"})
	s.be.Send(&pgproto3.ParameterStatus{Name: "client_encoding", Value: "UTF8"})
	s.be.Send(&pgproto3.ParameterStatus{Name: "standard_conforming_strings", Value: "on"})
	s.be.Send(&pgproto3.BackendKeyData{ProcessID: 1, SecretKey: 1})
	if s.ready() != nil {
		return
	}
	for {
		msg, err := s.be.Receive()
		if err != nil {
			return
		}
		var closed bool
		switch m := msg.(type) {
		case *pgproto3.Terminate:
			return
		case *pgproto3.Query:
			closed = s.query(m.String)
		case *pgproto3.Parse:
			closed = s.parse(m.Query)
		case *pgproto3.Describe:
			if !s.skipToSync {
				s.describe()
			}
		case *pgproto3.Sync:
			s.skipToSync = false
			if s.ready() != nil {
				return
			}
		case *pgproto3.CopyData:
			if s.copying {
				s.copyBuf = append(s.copyBuf, m.Data...)
			}
		case *pgproto3.CopyDone:
			closed = s.copyDone()
		case *pgproto3.CopyFail:
			s.copying = false
			s.failStmt(&pgErr{"57014", "COPY from stdin failed: " + m.Message})
			closed = s.ready() != nil
		case *pgproto3.Flush:
		default:
			s.db.mu.Lock()
			s.db.unsupp = append(s.db.unsupp, fmt.Sprintf("message %T", msg))
			s.db.mu.Unlock()
			return
		}
		if closed {
			return
		}
	}
}

func (s *session) failStmt(err error) {
	if s.inTx {
		s.aborted = true
	}
	s.sendErr(err)
}

var (
	reLit   = regexp.MustCompile(`'((?:[^']|'')*)'`)
	reCond  = regexp.MustCompile(`(\w+) ?(>=|<=|<>|!=|=|>|<) ?'([^']*)'`)
	reIdent = regexp.MustCompile(`"([^"]+)"`)
)

func normSQL(q string) string {
	q = strings.ToLower(strings.Join(strings.Fields(q), " "))
	return strings.TrimSuffix(strings.TrimSpace(q), ";")
}

func parseConds(where string) []cond {
	var cs []cond
	for _, m := range reCond.FindAllStringSubmatch(where, -1) {
		cs = append(cs, cond{m[1], m[2], m[3]})
	}
	return cs
}

// runs a mutation: inside a tx it is validated against committed+own writes
// and queued; outside a tx it is applied at once (autocommit).
func (s *session) mutate(desc string, m mutation) (int, error) {
	s.db.mu.Lock()
	defer s.db.mu.Unlock()
	view := s.db.st.clone()
	if s.inTx {
		for _, pm := range s.muts {
			if _, err := pm(&view); err != nil {
				return 0, err
			}
		}
	}
	n, err := m(&view)
	if err != nil {
		return 0, err
	}
	if s.inTx {
		s.muts = append(s.muts, m)
		s.descs = append(s.descs, desc)
		return n, nil
	}
	s.db.st = view
	if s.db.observe != nil {
		s.db.observe("autocommit "+desc, view.clone())
	}
	return n, nil
}

func (s *session) view() (dbState, error) {
	s.db.mu.Lock()
	defer s.db.mu.Unlock()
	view := s.db.st.clone()
	if s.inTx {
		for _, pm := range s.muts {
			if _, err := pm(&view); err != nil {
				return view, err
			}
		}
	}
	return view, nil
}

func (s *session) commit() (string, error) {
	defer func() { s.inTx, s.aborted, s.muts, s.descs = false, false, nil, nil }()
	if !s.inTx {
		return "COMMIT", nil
	}
	if s.aborted {
		return "ROLLBACK", nil
	}
	s.db.mu.Lock()
	defer s.db.mu.Unlock()
	next := s.db.st.clone()
	for _, pm := range s.muts {
		if _, err := pm(&next); err != nil {
			return "", err
		}
	}
	s.db.st = next
	if len(s.muts) > 0 && s.db.observe != nil {
		s.db.observe("commit of ["+strings.Join(s.descs, "; ")+"]", next.clone())
	}
	return "COMMIT", nil
}

type stmtResult struct {
	tag    string
	fields []pgproto3.FieldDescription
	rows   [][][]byte
}

func fd(name string, oid uint32) pgproto3.FieldDescription {
	size := int16(-1)
	if oid == 20 {
		size = 8
	}
	return pgproto3.FieldDescription{Name: []byte(name), DataTypeOID: oid, DataTypeSize: size, TypeModifier: -1}
}

func colOID(name string) uint32 {
	switch name {
	case "block_num", "tx_idx", "num", "chain_id":
		return 20 // int8
	case "block_hash", "hash":
		return 17 // bytea
	}
	return 25 // text
}

func (s *session) execStmt(q string) (string, func() (*stmtResult, error)) {
	switch {
	case q == "begin":
		return "begin", func() (*stmtResult, error) {
			s.inTx, s.aborted, s.muts, s.descs = true, false, nil, nil
			return &stmtResult{tag: "BEGIN"}, nil
		}
	case q == "commit":
		return "commit", func() (*stmtResult, error) {
			tag, err := s.commit()
			if err != nil {
				return nil, err
			}
			return &stmtResult{tag: tag}, nil
		}
	case q == "rollback":
		return "rollback", func() (*stmtResult, error) {
			s.inTx, s.aborted, s.muts, s.descs = false, false, nil, nil
			return &stmtResult{tag: "ROLLBACK"}, nil
		}
	case strings.HasPrefix(q, "select num, hash from shovel.task_updates where ") &&
		strings.HasSuffix(q, "order by num desc limit 1"):
		cs := parseConds(q)
		return "select latest position", func() (*stmtResult, error) {
			v, err := s.view()
			if err != nil {
				return nil, err
			}
			res := &stmtResult{tag: "SELECT 0", fields: []pgproto3.FieldDescription{fd("num", 20), fd("hash", 17)}}
			var best *posRow
			for i := range v.pos {
				ok, err := v.pos[i].match(cs)
				if err != nil {
					return nil, err
				}
				if ok && (best == nil || v.pos[i].num > best.num) {
					best = &v.pos[i]
				}
			}
			if best != nil {
				res.tag = "SELECT 1"
				res.rows = append(res.rows, [][]byte{
					[]byte(strconv.FormatUint(best.num, 10)),
					[]byte(`\x` + best.hash),
				})
			}
			return res, nil
		}
	case strings.HasPrefix(q, "insert into shovel.task_updates ("):
		open := strings.Index(q, "(")
		cl := strings.Index(q, ")")
		var cols []string
		for _, c := range strings.Split(q[open+1:cl], ",") {
			cols = append(cols, strings.TrimSpace(c))
		}
		lits := reLit.FindAllStringSubmatch(q[cl:], -1)
		get := func(name string) string {
			for i := range cols {
				if cols[i] == name && i < len(lits) {
					return lits[i][1]
				}
			}
			return ""
		}
		num, nerr := strconv.ParseUint(get("num"), 10, 64)
		p := posRow{src: get("src_name"), ig: get("ig_name"), num: num, hash: strings.TrimPrefix(get("hash"), `\x`)}
		return fmt.Sprintf("insert position %d", num), func() (*stmtResult, error) {
			if nerr != nil || len(lits) != len(cols) {
				return nil, &pgErr{"42601", "fake: cannot parse position insert: " + q}
			}
			_, err := s.mutate(fmt.Sprintf("insert position %d", num), func(st *dbState) (int, error) {
				return 1, st.insertPos(p)
			})
			if err != nil {
				return nil, err
			}
			return &stmtResult{tag: "INSERT 0 1"}, nil
		}
	case strings.HasPrefix(q, "delete from "):
		rest := strings.TrimPrefix(q, "delete from ")
		table, where, _ := strings.Cut(rest, " where ")
		cs := parseConds(where)
		var m mutation
		var desc string
		if table == "shovel.task_updates" {
			desc = "delete positions where " + where
			m = func(st *dbState) (int, error) {
				var keep []posRow
				n := 0
				for _, p := range st.pos {
					ok, err := p.match(cs)
					if err != nil {
						return 0, err
					}
					if ok {
						n++
					} else {
						keep = append(keep, p)
					}
				}
				st.pos = keep
				return n, nil
			}
		} else {
			desc = "delete rows of " + table + " where " + where
			m = func(st *dbState) (int, error) {
				var keep []dataRow
				n := 0
				for _, r := range st.rows {
					ok := r.table == table
					if ok {
						var err error
						if ok, err = r.match(cs); err != nil {
							return 0, err
						}
					}
					if ok {
						n++
					} else {
						keep = append(keep, r)
					}
				}
				st.rows = keep
				return n, nil
			}
		}
		return desc, func() (*stmtResult, error) {
			n, err := s.mutate(desc, m)
			if err != nil {
				return nil, err
			}
			return &stmtResult{tag: fmt.Sprintf("DELETE %d", n)}, nil
		}
	}
	return "unsupported: " + q, func() (*stmtResult, error) {
		s.db.mu.Lock()
		s.db.unsupp = append(s.db.unsupp, q)
		s.db.mu.Unlock()
		return nil, &pgErr{"0A000", "fake: unsupported statement: " + q}
	}
}

func (s *session) sendResult(r *stmtResult) {
	if r.fields != nil {
		s.be.Send(&pgproto3.RowDescription{Fields: r.fields})
		for _, row := range r.rows {
			s.be.Send(&pgproto3.DataRow{Values: row})
		}
	}
	s.be.Send(&pgproto3.CommandComplete{CommandTag: []byte(r.tag)})
}

// handles a simple-protocol Query message; returns true when the connection is gone
func (s *session) query(sql string) bool {
	q := normSQL(sql)
	if strings.HasPrefix(q, "copy ") {
		return s.copyStart(q)
	}
	desc, apply := s.execStmt(q)
	if s.inTx && s.aborted && q != "commit" && q != "rollback" {
		// no fault needed: postgres refuses everything in an aborted tx
		s.db.inj.next("sql " + desc + " (in aborted tx)")
		s.sendErr(&pgErr{"25P02", "current transaction is aborted, commands ignored until end of transaction block"})
		return s.ready() != nil
	}
	switch k := s.db.inj.next("sql " + desc); k {
	case fDead, fDropBefore:
		return true
	case fDieBefore:
		s.db.inj.die()
		return true
	case fDropAfter:
		apply()
		return true
	case fDieAfter:
		apply()
		s.db.inj.die()
		return true
	case fErr:
		if q == "commit" || q == "rollback" {
			// a failing commit ends (rolls back) the transaction
			s.inTx, s.aborted, s.muts, s.descs = false, false, nil, nil
		}
		s.failStmt(&pgErr{"XX000", "injected error reply"})
		return s.ready() != nil
	}
	res, err := apply()
	if err != nil {
		s.failStmt(err)
	} else {
		s.sendResult(res)
	}
	return s.ready() != nil
}

// extended protocol is only used by pgx.CopyFrom to learn the column types
func (s *session) parse(sql string) bool {
	s.parsed = sql
	switch k := s.db.inj.next("sql describe for copy"); k {
	case fDead, fDropBefore, fDropAfter:
		return true
	case fDieBefore, fDieAfter:
		s.db.inj.die()
		return true
	case fErr:
		s.failStmt(&pgErr{"XX000", "injected error reply"})
		s.skipToSync = true
		return false
	}
	if s.inTx && s.aborted {
		s.sendErr(&pgErr{"25P02", "current transaction is aborted"})
		s.skipToSync = true
		return false
	}
	s.be.Send(&pgproto3.ParseComplete{})
	return false
}

func (s *session) describe() {
	ids := reIdent.FindAllStringSubmatch(s.parsed, -1)
	var fields []pgproto3.FieldDescription
	for i := 0; i+1 < len(ids); i++ { // last identifier is the table
		fields = append(fields, fd(ids[i][1], colOID(ids[i][1])))
	}
	s.be.Send(&pgproto3.ParameterDescription{})
	s.be.Send(&pgproto3.RowDescription{Fields: fields})
}

func (s *session) copyStart(q string) bool {
	ids := reIdent.FindAllStringSubmatch(q, -1)
	if len(ids) < 2 {
		s.failStmt(&pgErr{"42601", "fake: cannot parse copy: " + q})
		return s.ready() != nil
	}
	s.copyTable = ids[0][1]
	s.copyCols = nil
	for _, id := range ids[1:] {
		s.copyCols = append(s.copyCols, id[1])
	}
	if s.inTx && s.aborted {
		s.db.inj.next("sql copy into " + s.copyTable + " (in aborted tx)")
		s.sendErr(&pgErr{"25P02", "current transaction is aborted, commands ignored until end of transaction block"})
		return s.ready() != nil
	}
	k := s.db.inj.next("sql copy into " + s.copyTable)
	switch k {
	case fDead, fDropBefore:
		return true
	case fDieBefore:
		s.db.inj.die()
		return true
	case fErr:
		s.failStmt(&pgErr{"XX000", "injected error reply"})
		return s.ready() != nil
	}
	s.copying, s.copyFault, s.copyBuf = true, k, nil
	fc := make([]uint16, len(s.copyCols))
	for i := range fc {
		fc[i] = 1
	}
	s.be.Send(&pgproto3.CopyInResponse{OverallFormat: 1, ColumnFormatCodes: fc})
	return s.be.Flush() != nil
}

func (s *session) decodeCopy() ([]dataRow, error) {
	b := s.copyBuf
	sig := []byte("PGCOPY\n\377\r\n\000")
	if len(b) < len(sig)+8 || !bytes.Equal(b[:len(sig)], sig) {
		return nil, &pgErr{"22P04", "fake: bad COPY header"}
	}
	b = b[len(sig)+4:]
	ext := binary.BigEndian.Uint32(b)
	b = b[4+ext:]
	var rows []dataRow
	for {
		if len(b) == 0 { // pgx omits the optional file trailer
			return rows, nil
		}
		if len(b) < 2 {
			return nil, &pgErr{"22P04", "fake: truncated COPY data"}
		}
		nf := int16(binary.BigEndian.Uint16(b))
		b = b[2:]
		if nf == -1 {
			return rows, nil
		}
		if int(nf) != len(s.copyCols) {
			return nil, &pgErr{"22P04", "fake: wrong field count"}
		}
		r := dataRow{table: s.copyTable}
		for i := 0; i < int(nf); i++ {
			l := int32(binary.BigEndian.Uint32(b))
			b = b[4:]
			var v []byte
			if l >= 0 {
				v, b = b[:l], b[l:]
			}
			switch s.copyCols[i] {
			case "src_name":
				r.src = string(v)
			case "ig_name":
				r.ig = string(v)
			case "block_num":
				r.blockNum = binary.BigEndian.Uint64(v)
			case "tx_idx":
				r.txIdx = binary.BigEndian.Uint64(v)
			case "block_hash":
				r.blockHash = hex.EncodeToString(v)
			}
		}
		rows = append(rows, r)
	}
}

func (s *session) copyDone() bool {
	if !s.copying {
		return false
	}
	s.copying = false
	rows, err := s.decodeCopy()
	var n int
	if err == nil {
		var nums []string
		for _, r := range rows {
			nums = append(nums, fmt.Sprintf("%d/tx%d", r.blockNum, r.txIdx))
		}
		n, err = s.mutate("copy rows "+strings.Join(nums, ","), func(st *dbState) (int, error) {
			for _, r := range rows {
				if err := st.insertRow(r); err != nil {
					return 0, err
				}
			}
			return len(rows), nil
		})
	}
	switch s.copyFault {
	case fDropAfter:
		return true
	case fDieAfter:
		s.db.inj.die()
		return true
	}
	if err != nil {
		s.failStmt(err)
	} else {
		s.be.Send(&pgproto3.CommandComplete{CommandTag: []byte(fmt.Sprintf("COPY %d", n))})
	}
	return s.ready() != nil
}

// ---------------------------------------------------------------- world

type world struct {
	inj   *injector
	db    *fakeDB
	chain *fakeChain
	pool  *pgxpool.Pool
	task  *Task
	batch int

	problems  []string // everything
	transient int      // of which: only seen by the concurrent observer (intermediate committed states)
}

func newWorld(batch int, plan func(int, string) faultKind) (*world, error) {
	w := &world{batch: batch}
	w.inj = &injector{plan: plan}
	w.db = newFakeDB(w.inj)
	w.chain = newChain(w.inj)
	w.inj.onDie = w.db.killAll
	w.db.observe = func(desc string, st dbState) {
		for _, v := range w.inv(st) {
			w.transient++
			w.problem("state observable by another session after %s violates Inv: %s\n      state: %s", desc, v, st)
		}
	}
	return w, w.boot()
}

func (w *world) problem(f string, args ...any) {
	w.problems = append(w.problems, fmt.Sprintf(f, args...))
}

// starts a fresh "process": new pool, new Task, nothing carried over in memory
func (w *world) boot() error {
	cfg, err := pgxpool.ParseConfig("postgres://u@127.0.0.1:5432/db?sslmode=disable&default_query_exec_mode=simple_protocol")
	if err != nil {
		return err
	}
	cfg.ConnConfig.DialFunc = w.db.dial
	cfg.ConnConfig.LookupFunc = func(ctx context.Context, host string) ([]string, error) { return []string{host}, nil }
	cfg.MaxConns = 4
	cfg.HealthCheckPeriod = time.Hour
	w.pool, err = pgxpool.NewWithConfig(context.Background(), cfg)
	if err != nil {
		return err
	}
	cols := []string{"src_name", "ig_name", "block_num", "block_hash", "tx_idx"}
	var (
		bd   []dig.BlockData
		tcol []wpg.Column
	)
	for _, c := range cols {
		bd = append(bd, dig.BlockData{Name: c, Column: c})
		tcol = append(tcol, wpg.Column{Name: c, Type: "text"})
	}
	ig, err := dig.New(demoIG, dig.Event{}, bd, wpg.Table{Name: demoTable, Columns: tcol}, dig.Notification{}, "")
	if err != nil {
		return err
	}
	ctx := context.Background()
	ctx = wctx.WithChainID(ctx, 1)
	ctx = wctx.WithSrcName(ctx, demoSrc)
	ctx = wctx.WithIGName(ctx, demoIG)
	w.task = &Task{
		ctx:          ctx,
		pgp:          w.pool,
		pollDuration: time.Millisecond,
		batchSize:    w.batch,
		concurrency:  1,
		start:        demoStart,
		src:          w.chain,
		srcName:      demoSrc,
		srcChainID:   1,
		dests:        []Destination{ig},
		destConfig:   config.Integration{Name: demoIG},
	}
	w.task.filter = ig.Filter()
	return nil
}

func (w *world) reboot() error {
	old := w.pool
	go old.Close()
	w.inj.mu.Lock()
	w.inj.dead = false
	w.inj.mu.Unlock()
	return w.boot()
}

func maxPos(st dbState) (uint64, bool) {
	var (
		m  uint64
		ok bool
	)
	for _, p := range st.pos {
		if p.src == demoSrc && p.ig == demoIG && (!ok || p.num > m) {
			m, ok = p.num, true
		}
	}
	return m, ok
}

// Inv: rows cover exactly the blocks start..position
func (w *world) inv(st dbState) []string {
	var out []string
	P, ok := maxPos(st)
	if !ok {
		P = demoStart - 1
	}
	byNum := map[uint64][]dataRow{}
	for _, r := range st.rows {
		if r.blockNum > P {
			out = append(out, fmt.Sprintf("row of block %d (tx %d, hash %.6s) lies beyond the recorded position %d", r.blockNum, r.txIdx, r.blockHash, P))
		}
		if r.blockNum < demoStart {
			out = append(out, fmt.Sprintf("row of block %d below start", r.blockNum))
		}
		byNum[r.blockNum] = append(byNum[r.blockNum], r)
	}
	posHash := map[uint64]string{}
	for _, p := range st.pos {
		posHash[p.num] = p.hash
	}
	prev := ""
	for n := demoStart; n <= P; n++ {
		rows := byNum[n]
		if len(rows) == 0 {
			out = append(out, fmt.Sprintf("position is %d but block %d has no rows", P, n))
			prev = ""
			continue
		}
		h := rows[0].blockHash
		seen := map[uint64]int{}
		mixed := false
		for _, r := range rows {
			if r.blockHash != h {
				mixed = true
			}
			seen[r.txIdx]++
		}
		if mixed {
			out = append(out, fmt.Sprintf("block %d has rows of different block hashes (stale rows of an orphaned block)", n))
			prev = ""
			continue
		}
		w.chain.mu.Lock()
		fb, known := w.chain.byHash[h]
		w.chain.mu.Unlock()
		switch {
		case !known || fb.num != n:
			out = append(out, fmt.Sprintf("block %d rows carry unknown hash %.6s", n, h))
		default:
			for i := 0; i < fb.ntx; i++ {
				if seen[uint64(i)] != 1 {
					out = append(out, fmt.Sprintf("block %d (hash %.6s): tx %d has %d rows, want 1", n, h, i, seen[uint64(i)]))
				}
			}
			if len(rows) != fb.ntx {
				out = append(out, fmt.Sprintf("block %d (hash %.6s) has %d rows, want %d", n, h, len(rows), fb.ntx))
			}
			if prev != "" && hex.EncodeToString(fb.parent) != prev {
				out = append(out, fmt.Sprintf("rows of block %d (hash %.6s) do not link to rows of block %d (hash %.6s)", n, h, n-1, prev))
			}
		}
		if ph, ok := posHash[n]; ok && ph != h {
			out = append(out, fmt.Sprintf("position row %d has hash %.6s but rows of block %d carry %.6s", n, ph, n, h))
		}
		prev = h
	}
	return out
}

func truncate(st dbState, m uint64) dbState {
	var out dbState
	for _, p := range st.pos {
		if p.num <= m {
			out.pos = append(out.pos, p)
		}
	}
	for _, r := range st.rows {
		if r.blockNum <= m {
			out.rows = append(out.rows, r)
		}
	}
	return out
}

// one step, as Manager.runTask would run it
func (w *world) step() error {
	before := w.db.snapshot()
	w.inj.mu.Lock()
	w.inj.fAfter = false
	w.inj.mu.Unlock()

	err := w.task.Converge()

	if w.inj.isDead() {
		if rerr := w.reboot(); rerr != nil {
			w.problem("reboot: %v", rerr)
		}
	}
	after := w.db.snapshot()
	for _, v := range w.inv(after) {
		w.problem("state left by step (err=%v) violates Inv: %s\n      state: %s", err, v, after)
	}
	w.inj.mu.Lock()
	fAfter := w.inj.fAfter
	w.inj.mu.Unlock()
	if err != nil && !fAfter && after.String() != before.String() {
		P, ok := maxPos(after)
		if !ok {
			P = demoStart - 1
		}
		if tr := truncate(before, P); tr.String() != after.String() {
			w.problem("failed step (err=%v) left neither the previous state nor a rolled-back earlier state\n      before: %s\n      after:  %s", err, before, after)
		}
	}
	return err
}

func (w *world) drive() {
	for i := 0; i < 60; i++ {
		if err := w.step(); errors.Is(err, ErrNothingNew) {
			return
		}
	}
	w.problem("task did not catch up within 60 steps; state: %s", w.db.snapshot())
}

// End: database equals the fault-free result for the canonical chain
func (w *world) checkEnd() {
	st := w.db.snapshot()
	w.chain.mu.Lock()
	var want dbState
	for _, b := range w.chain.blocks[demoStart:] {
		for i := 0; i < b.ntx; i++ {
			want.rows = append(want.rows, dataRow{demoTable, demoSrc, demoIG, b.num, hex.EncodeToString(b.hash), uint64(i)})
		}
	}
	head := w.chain.blocks[len(w.chain.blocks)-1]
	w.chain.mu.Unlock()
	got := dbState{rows: st.rows}
	if got.String() != want.String() {
		w.problem("final rows differ from the fault-free result\n      got:  %s\n      want: %s", got, want)
	}
	P, _ := maxPos(st)
	if P != head.num {
		w.problem("final position %d, want %d", P, head.num)
	}
	for _, p := range st.pos {
		if p.num == P && p.hash != hex.EncodeToString(head.hash) {
			w.problem("final position hash %.6s, want %.6s", p.hash, hex.EncodeToString(head.hash))
		}
	}
	if len(w.db.unsupp) > 0 {
		w.problem("fake database got unsupported input: %v", w.db.unsupp)
	}
}

func (w *world) shutdown() {
	p := w.pool
	go p.Close()
}

type script struct {
	name  string
	batch int
	run   func(w *world)
}

var scripts = []script{
	{"growth-batch1", 1, func(w *world) {
		w.chain.grow(2)
		w.drive()
		w.chain.grow(4)
		w.drive()
	}},
	{"growth-batch2", 2, func(w *world) {
		w.chain.grow(3)
		w.drive()
		w.chain.grow(5)
		w.drive()
	}},
	{"reorg-depth2-batch1", 1, func(w *world) {
		w.chain.grow(4)
		w.drive()
		w.chain.reorg(3, 5) // blocks 3,4 orphaned; new fork 3',4',5'
		w.drive()
		w.chain.grow(6)
		w.drive()
	}},
	{"reorg-depth1-batch1", 1, func(w *world) {
		w.chain.grow(3)
		w.drive()
		w.chain.reorg(3, 3) // head replaced by a sibling, same height
		w.drive()
		w.chain.reorg(3, 4)
		w.drive()
	}},
}

func runScript(sc script, plan func(int, string) faultKind) (*world, error) {
	w, err := newWorld(sc.batch, plan)
	if err != nil {
		return nil, err
	}
	sc.run(w)
	w.checkEnd()
	w.shutdown()
	return w, nil
}

func quiet() {
	slog.SetDefault(slog.New(slog.NewTextHandler(io.Discard, nil)))
}

func report(t *testing.T, label string, w *world) {
	t.Helper()
	if len(w.problems) == 0 {
		return
	}
	t.Errorf("FAIL C02 %s: faults=%v", label, w.inj.fired)
	sort.SliceStable(w.problems, func(i, j int) bool {
		return !strings.HasPrefix(w.problems[i], "state observable") && strings.HasPrefix(w.problems[j], "state observable")
	})
	for i, p := range w.problems {
		if i == 4 {
			t.Logf("    ... %d more", len(w.problems)-i)
			break
		}
		t.Logf("    %s", p)
	}
}

// ---------------------------------------------------------------- tests

// exhaustive single faults: every I/O operation x every fault kind
func TestDemoSingleFaultSweep(t *testing.T) {
	quiet()
	for _, sc := range scripts {
		base, err := runScript(sc, nil)
		if err != nil {
			t.Fatal(err)
		}
		report(t, sc.name+" fault-free", base)
		nops := base.inj.n
		if len(base.problems) > base.transient {
			t.Logf("%-22s already the fault-free run leaves a violating state behind; fault sweep skipped", sc.name)
			continue
		}
		bad, persistent, runs := 0, 0, 0
		for k := 1; k <= nops; k++ {
			for _, kind := range allKinds {
				k, kind := k, kind
				w, err := runScript(sc, func(n int, desc string) faultKind {
					if n == k {
						return kind
					}
					return fNone
				})
				if err != nil {
					t.Fatal(err)
				}
				runs++
				if len(w.problems) > 0 {
					bad++
					if len(w.problems) > w.transient {
						persistent++
					}
					if bad <= 2 || (persistent <= 2 && len(w.problems) > w.transient) {
						report(t, sc.name, w)
					}
				}
			}
		}
		t.Logf("%-22s %3d operations x %d fault kinds = %4d runs, %d violating (%d of them leave a violating state behind after a step / at the end, the rest only in a state observable mid-step)", sc.name, nops, len(allKinds), runs, bad, persistent)
		if bad > 0 {
			t.Errorf("FAIL C02 %s: %d of %d single-fault runs violate the property", sc.name, bad, runs)
		}
	}
}

// random multi-fault sequences
func TestDemoRandomMultiFault(t *testing.T) {
	quiet()
	for _, sc := range scripts {
		bad := 0
		const runs = 60
		for seed := 0; seed < runs; seed++ {
			rng := rand.New(rand.NewSource(int64(seed)))
			budget := 2 + rng.Intn(4)
			w, err := runScript(sc, func(n int, desc string) faultKind {
				if budget > 0 && rng.Intn(6) == 0 {
					budget--
					return allKinds[rng.Intn(len(allKinds))]
				}
				return fNone
			})
			if err != nil {
				t.Fatal(err)
			}
			if len(w.problems) > 0 {
				bad++
				if bad <= 2 {
					report(t, fmt.Sprintf("%s seed=%d", sc.name, seed), w)
				}
			}
		}
		t.Logf("%-22s %d random multi-fault runs, %d violating", sc.name, runs, bad)
		if bad > 0 {
			t.Errorf("FAIL C02 %s: %d of %d random multi-fault runs violate the property", sc.name, bad, runs)
		}
	}
}

// Targeted scenario 1: growth only, batch 1. The connection drops while the
// final COMMIT of the step that indexes block 1 is in flight (commit lost).
func TestDemoTargetedCommitLost(t *testing.T) {
	quiet()
	commits := 0
	w, err := runScript(scripts[0], func(n int, desc string) faultKind {
		if desc == "sql commit" {
			commits++
			if commits == 2 { // 1st commit closes the read tx, 2nd commits rows+position of block 1
				return fDropBefore
			}
		}
		return fNone
	})
	if err != nil {
		t.Fatal(err)
	}
	t.Logf("faults: %v", w.inj.fired)
	t.Logf("final state: %s", w.db.snapshot())
	report(t, "targeted: connection drop at the commit of block 1", w)
}

// Targeted scenario 2: no fault at all, a depth-2 reorg between two steps.
func TestDemoTargetedReorg(t *testing.T) {
	quiet()
	w, err := runScript(scripts[2], nil)
	if err != nil {
		t.Fatal(err)
	}
	t.Logf("final state: %s", w.db.snapshot())
	report(t, "targeted: depth-2 reorg, no faults", w)
}

func TestDemoTrace(t *testing.T) {
	if !testing.Verbose() {
		t.Skip()
	}
	quiet()
	w, err := runScript(scripts[2], nil)
	if err != nil {
		t.Fatal(err)
	}
	for _, l := range w.inj.trace {
		t.Log(l)
	}
	report(t, "trace", w)
}
