package dig_test

// Bounded stand-in for C07 (labelled bounded): every data plan x ranges 1..3
// x a list of single corruptions of an otherwise correct set of responses.
// The real jrpc2.Client.Get must either fail or deliver exactly the data the
// (honest) source would report: complete rows, every value in place.

import (
	"fmt"
	"os"
	"testing"
)

func cp(m any) map[string]any {
	out := map[string]any{}
	for k, v := range m.(map[string]any) {
		out[k] = v
	}
	return out
}

func setResult(out []any, i int, f func(res any) any) []any {
	if i >= len(out) {
		return out
	}
	e := cp(out[i])
	e["result"] = f(e["result"])
	out[i] = e
	return out
}

func corruptions() []corruption {
	swap := func(out []any) []any {
		if len(out) > 1 {
			out[0], out[1] = out[1], out[0]
		}
		return out
	}
	dup := func(out []any) []any {
		if len(out) > 1 {
			out[1] = out[0]
		}
		return out
	}
	// the last answer repeated in the first slot (a copy made backwards)
	dupBack := func(out []any) []any {
		if len(out) > 1 {
			out[0] = out[len(out)-1]
		}
		return out
	}
	// a correct batch delivered in reverse order is acceptable only as an error or as complete data
	reverse := func(out []any) []any {
		for i, j := 0, len(out)-1; i < j; i, j = i+1, j-1 {
			out[i], out[j] = out[j], out[i]
		}
		return out
	}
	drop := func(out []any) []any {
		if len(out) > 0 {
			return out[:len(out)-1]
		}
		return out
	}
	null0 := func(out []any) []any { return setResult(out, 0, func(any) any { return nil }) }
	err0 := func(out []any) []any {
		if len(out) > 0 {
			e := cp(out[0])
			delete(e, "result")
			e["error"] = map[string]any{"code": -32000, "message": "boom"}
			out[0] = e
		}
		return out
	}
	var cs []corruption
	for _, m := range []string{"eth_getBlockByNumber", "eth_getBlockReceipts", "trace_block", "eth_getLogs"} {
		cs = append(cs,
			corruption{name: "reorder", method: m, apply: swap},
			corruption{name: "duplicate", method: m, apply: dup},
			corruption{name: "duplicate-backward", method: m, apply: dupBack},
			corruption{name: "reversed", method: m, apply: reverse},
			corruption{name: "drop-last", method: m, apply: drop},
			corruption{name: "null-result", method: m, apply: null0},
			corruption{name: "error-member", method: m, apply: err0},
			corruption{name: "http-500", method: m, status: 500},
			corruption{name: "http-404-valid-body", method: m, status: 404, keepBody: true, mustFail: true},
			corruption{name: "http-301-valid-body", method: m, status: 301, keepBody: true, mustFail: true},
			corruption{name: "truncated-body", method: m, trunc: true},
		)
	}
	// renumber / relink block answers
	cs = append(cs,
		corruption{name: "renumber-block", method: "eth_getBlockByNumber", apply: func(out []any) []any {
			return setResult(out, len(out)-1, func(r any) any { b := cp(r); b["number"] = hx(pStart + 7); return b })
		}},
		corruption{name: "break-parent", method: "eth_getBlockByNumber", apply: func(out []any) []any {
			return setResult(out, len(out)-1, func(r any) any { b := cp(r); b["parentHash"] = pat(0xee, 1, 2, 32); return b })
		}},
		corruption{name: "receipt-wrong-block", method: "eth_getBlockReceipts", apply: func(out []any) []any {
			return setResult(out, 0, func(r any) any {
				rs := append([]any{}, r.([]any)...)
				for i := range rs {
					x := cp(rs[i])
					x["blockNumber"] = hx(pStart + 9)
					rs[i] = x
				}
				return rs
			})
		}},
		// the logs come from another fork than the headers fetched before them: if
		// the answer is accepted the block must carry the hash its logs name
		corruption{name: "logs-name-another-fork", method: "eth_getLogs", apply: func(out []any) []any {
			return setResult(out, len(out)-1, func(r any) any {
				ls := append([]any{}, r.([]any)...)
				for i := range ls {
					x := cp(ls[i])
					x["blockHash"] = pat(0xf0, 0xf0, 0x0f, 32)
					ls[i] = x
				}
				return ls
			})
		}, expect: func(name string, n, i, k uint64) (string, bool) {
			if name == "block_hash" {
				return pat(0xf0, 0xf0, 0x0f, 32), true
			}
			return "", false
		}},
		// the backend answering eth_getLogs has not imported the last requested block yet
		// (another replica served the headers): its probe is null and its logs stop short
		corruption{name: "log-backend-lags", method: "eth_getLogs", apply: func(out []any) []any {
			out = setResult(out, 0, func(any) any { return nil })
			return setResult(out, len(out)-1, func(r any) any {
				ls := r.([]any)
				var last string
				for _, l := range ls {
					if bn := l.(map[string]any)["blockNumber"].(string); bn > last || len(bn) > len(last) {
						last = bn
					}
				}
				var keep []any
				for _, l := range ls {
					if l.(map[string]any)["blockNumber"].(string) != last {
						keep = append(keep, l)
					}
				}
				if keep == nil {
					keep = []any{}
				}
				return keep
			})
		}},
		corruption{name: "log-out-of-range", method: "eth_getLogs", apply: func(out []any) []any {
			return setResult(out, len(out)-1, func(r any) any {
				ls := append([]any{}, r.([]any)...)
				if len(ls) > 0 {
					x := cp(ls[0])
					x["blockNumber"] = hx(pStart + 9)
					ls[0] = x
				}
				return ls
			})
		}},
	)
	return cs
}

func TestVerifCorruptBounded(t *testing.T) {
	ts := newNode(t)
	plans := []struct {
		mode string
		set  []string
	}{
		{"tx", []string{"block_num", "block_time"}},                            // headers... with tx_idx: blocks
		{"tx", []string{"block_num", "tx_input"}},                              // blocks
		{"tx", []string{"block_num", "tx_status"}},                             // receipts
		{"tx", []string{"block_num", "tx_status", "tx_input"}},                 // blocks + receipts
		{"tx", []string{"block_num", "block_time", "tx_gas_used"}},             // headers/blocks + receipts
		{"log", []string{"block_num", "log_addr"}},                             // logs
		{"log", []string{"block_num", "block_time", "log_idx"}},                // headers + logs
		{"log", []string{"block_num", "tx_input", "log_addr"}},                 // blocks + logs
		{"log", []string{"block_num", "block_hash", "block_time", "log_addr"}}, // headers + logs, hash stored
		{"trace", []string{"block_num", "trace_action_from"}},                  // traces
		{"trace", []string{"block_num", "tx_status", "trace_action_to"}},       // receipts + traces
	}
	cases, nfail := 0, 0
	for _, pl := range plans {
		for limit := uint64(1); limit <= 3; limit++ {
			// honest baseline must pass
			nodeMu.Lock()
			nodeCorrupt = nil
			nodeMu.Unlock()
			cases++
			for _, m := range runSetN(t, ts, pl.mode, pl.set, limit, false) {
				nfail++
				if nfail <= 12 {
					fmt.Println("BOUNDED-FAIL honest node: " + m)
				}
			}
			for _, c := range corruptions() {
				c := c
				nodeMu.Lock()
				nodeCorrupt, nodeHits = &c, 0
				nodeMu.Unlock()
				expectHook = c.expect
				msgs := runSetN(t, ts, pl.mode, pl.set, limit, true)
				expectHook = nil
				nodeMu.Lock()
				hits := nodeHits
				nodeCorrupt = nil
				nodeMu.Unlock()
				if hits > 0 && c.mustFail && !lastRejected {
					msgs = append(msgs, fmt.Sprintf("a response with HTTP status %d was used", c.status))
				}
				if hits == 0 {
					continue // this plan does not use the corrupted method
				}
				cases++
				for _, m := range msgs {
					nfail++
					if nfail <= 12 {
						fmt.Printf("BOUNDED-FAIL corruption %s of %s, range %d: accepted, but %s\n", c.name, c.method, limit, m)
					}
				}
			}
		}
	}
	// a lagging node: its head lies inside the requested range. Whatever the
	// plan, the step must fail or deliver the rows of every requested block
	for _, pl := range plans {
		for _, c := range [][2]uint64{{2, 0}, {3, 0}, {3, 1}} {
			limit, seen := c[0], c[1]
			nodeHead = pStart + seen
			cases++
			msgs := runSetN(t, ts, pl.mode, pl.set, limit, true)
			nodeHead = 0
			for _, m := range msgs {
				nfail++
				if nfail <= 12 {
					fmt.Printf("BOUNDED-FAIL lagging node (head = first block + %d, %d blocks requested): accepted, but %s\n", seen, limit, m)
				}
			}
		}
	}
	// thorough tier: every pair of corruptions on two different RPC methods
	if os.Getenv("VERIF_TIER") == "thorough" {
		all := corruptions()
		for _, pl := range plans {
			for i := range all {
				for j := range all {
					if all[i].method >= all[j].method {
						continue
					}
					c1, c2 := all[i], all[j]
					nodeMu.Lock()
					nodeCorrupt, nodeCorrupt2, nodeHits, nodeHits2 = &c1, &c2, 0, 0
					nodeMu.Unlock()
					expectHook = func(name string, n, i, k uint64) (string, bool) {
						for _, c := range []corruption{c1, c2} {
							if c.expect != nil {
								if v, ok := c.expect(name, n, i, k); ok {
									return v, true
								}
							}
						}
						return "", false
					}
					msgs := runSetN(t, ts, pl.mode, pl.set, 2, true)
					expectHook = nil
					nodeMu.Lock()
					h1, h2 := nodeHits, nodeHits2
					nodeCorrupt, nodeCorrupt2 = nil, nil
					nodeMu.Unlock()
					if h1 == 0 || h2 == 0 {
						continue // the plan does not use both methods (or the first corruption already stopped it)
					}
					if (c1.mustFail || c2.mustFail) && !lastRejected {
						msgs = append(msgs, "a response with a non-2xx HTTP status was used")
					}
					cases++
					for _, m := range msgs {
						nfail++
						if nfail <= 12 {
							fmt.Printf("BOUNDED-FAIL corruptions %s of %s + %s of %s: accepted, but %s\n", c1.name, c1.method, c2.name, c2.method, m)
						}
					}
				}
			}
		}
	}
	fmt.Printf("BOUNDED cases=%d failures=%d exhaustive=true\n", cases, nfail)
	if nfail > 0 {
		t.Fail()
	}
}
