package dig_test

// Bounded stand-in (labelled bounded) for the head requests of C07: a node
// that answers eth_getBlockByNumber("latest") and the hash request with
// "result": null, an error member, or an empty object. Client.Latest,
// Client.Hash and the background poller started by Latest must report an
// error; a nil dereference in the poller stops the process, which the
// runner reports as a failure of this stand-in.

import (
	"context"
	"fmt"
	"io"
	"net/http"
	"net/http/httptest"
	"testing"
	"time"

	"github.com/indexsupply/shovel/jrpc2"
)

func TestVerifNullHeadBounded(t *testing.T) {
	bodies := []string{
		`{"jsonrpc":"2.0","id":"1","result":null}`,
		`{"jsonrpc":"2.0","id":"1"}`,
		`{"jsonrpc":"2.0","id":"1","error":{"code":-32000,"message":"boom"}}`,
	}
	cases, fails := 0, 0
	for _, body := range bodies {
		body := body
		ts := httptest.NewServer(http.HandlerFunc(func(w http.ResponseWriter, r *http.Request) {
			io.ReadAll(r.Body)
			w.Write([]byte(body))
		}))
		c := jrpc2.New(ts.URL).WithPollDuration(5 * time.Millisecond)
		ctx := context.Background()
		cases++
		if _, _, err := c.Latest(ctx, ts.URL, 0); err == nil {
			fails++
			fmt.Printf("BOUNDED-FAIL Latest accepted %s\n", body)
		}
		cases++
		if _, err := c.Hash(ctx, ts.URL, 5); err == nil {
			fails++
			fmt.Printf("BOUNDED-FAIL Hash accepted %s\n", body)
		}
		// let the poller started by Latest run a few rounds, then ask again
		time.Sleep(60 * time.Millisecond)
		cases++
		if _, _, err := c.Latest(ctx, ts.URL, 1); err == nil {
			fails++
			fmt.Printf("BOUNDED-FAIL Latest after polling accepted %s\n", body)
		}
		time.Sleep(30 * time.Millisecond)
		ts.Close()
	}
	fmt.Printf("BOUNDED cases=%d failures=%d exhaustive=true\n", cases, fails)
	if fails > 0 {
		t.Fail()
	}
}
