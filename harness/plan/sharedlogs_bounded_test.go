package dig_test

// Bounded stand-in (labelled bounded): integrations with different log
// filters on ONE source client. Every transaction of the scripted node emits
// two logs, from two contracts; integration A restricts eth_getLogs to the
// first contract, B to the second, U has no restriction, R has none either
// and takes its logs from the receipts. Their plans also
// fetch headers or blocks, so they share the cached blocks the logs are
// attached to. In every order of requests each integration must store exactly
// the rows an uncached client gives it (its own contract's log of every
// transaction).

import (
	"context"
	"fmt"
	"sort"
	"strings"
	"sync"
	"testing"

	"github.com/indexsupply/shovel/dig"
	"github.com/indexsupply/shovel/eth"
	"github.com/indexsupply/shovel/jrpc2"
	"github.com/indexsupply/shovel/wctx"
	"github.com/indexsupply/shovel/wpg"
)

func TestVerifSharedLogsBounded(t *testing.T) {
	twoLogs, nodeHonourAddr = true, true
	defer func() { twoLogs, nodeHonourAddr = false, false }()
	ts := newNode(t)
	mk := func(addr string, extra ...string) dig.Integration {
		tbl := wpg.Table{Name: "t"}
		var bd []dig.BlockData
		for _, f := range append([]string{"log_addr", "block_num", "tx_idx", "log_idx"}, extra...) {
			tbl.Columns = append(tbl.Columns, wpg.Column{Name: "c_" + f, Type: "text"})
			b := dig.BlockData{Name: f, Column: "c_" + f}
			if f == "log_addr" && addr != "" {
				b.Filter = dig.Filter{Op: "contains", Arg: []string{addr}}
			}
			bd = append(bd, b)
		}
		tbl.Columns = append(tbl.Columns, wpg.Column{Name: "c_value", Type: "numeric"})
		ev := dig.Event{Name: "Transfer", Type: "event", Inputs: []dig.Input{
			{Indexed: true, Name: "from", Type: "address"}, {Indexed: true, Name: "to", Type: "address"}, {Name: "value", Type: "uint256", Column: "c_value"}}}
		ig, err := dig.New("shared", ev, bd, tbl, dig.Notification{}, "")
		if err != nil {
			t.Fatal(err)
		}
		return ig
	}
	ctx := wctx.WithSrcName(wctx.WithChainID(context.Background(), 7), "fake")
	getOf := func(client *jrpc2.Client, ig dig.Integration) ([]eth.Block, error) {
		filter := ig.Filter()
		return client.Get(ctx, ts.URL, &filter, pStart, 2)
	}
	var insertOf func(ig dig.Integration, blocks []eth.Block) (string, error)
	rowsOf := func(client *jrpc2.Client, ig dig.Integration) (string, error) {
		blocks, err := getOf(client, ig)
		if err != nil {
			return "", err
		}
		return insertOf(ig, blocks)
	}
	insertOf = func(ig dig.Integration, blocks []eth.Block) (string, error) {
		var conn fakeConn
		if _, err := ig.Insert(ctx, &sync.Mutex{}, &conn, blocks); err != nil {
			return "", err
		}
		col := func(n string) int {
			for i, c := range conn.cols {
				if c == n {
					return i
				}
			}
			return -1
		}
		var out []string
		for _, r := range conn.rows {
			line := fmt.Sprintf("%s/%s/%s=%s", render(r[col("c_block_num")]), render(r[col("c_tx_idx")]), render(r[col("c_log_idx")]), render(r[col("c_value")]))
			if k := col("c_tx_status"); k >= 0 {
				line += " status=" + render(r[k]) // a receipt field: the node reports 1
			}
			out = append(out, line)
		}
		sort.Strings(out)
		return strings.Join(out, " "), nil
	}
	cases, fails := 0, 0
	for _, extra := range []string{"block_time", "tx_input"} { // headers + logs, blocks + logs
		// R: unrestricted, and its logs come with the receipts (tx_status is a receipt field)
		igs := map[string]dig.Integration{"A": mk(token0, extra), "B": mk(token1, extra), "U": mk("", extra), "R": mk("", extra, "tx_status")}
		// what each gets from a client of its own, and what the node's data say it should get
		alone := map[string]string{}
		if f := igs["R"].Filter(); !f.UseReceipts || !(f.UseHeaders || f.UseBlocks) {
			t.Fatalf("the receipts reader does not share cached blocks: plan %s", f.String())
		}
		for name, ig := range igs {
			r, err := rowsOf(jrpc2.New(ts.URL), ig)
			if err != nil {
				t.Fatal(err)
			}
			alone[name] = r
			var want []string
			for n := uint64(pStart); n < pStart+2; n++ {
				for i := uint64(0); i < pTxs; i++ {
					for j := uint64(0); j < 2; j++ {
						if name == "U" || name == "R" || (name == "A") == (j == 0) {
							line := fmt.Sprintf("%d/%d/%d=%d", n, i, 2*i+1+j, 5000+100*n+10*i+j)
							if name == "R" {
								line += " status=1"
							}
							want = append(want, line)
						}
					}
				}
			}
			sort.Strings(want)
			cases++
			if r != strings.Join(want, " ") {
				fails++
				fmt.Printf("BOUNDED-FAIL integration %s (%s) on a client of its own stores %s, the node reports %s\n", name, extra, r, strings.Join(want, " "))
			}
		}
		for _, order := range []string{"ABA", "BAB", "ABUAB", "UAB", "BUA", "AUB", "AR", "BRA", "RAB", "ABR", "RR", "ARR", "UR", "URU", "URR"} {
			cases++
			client := jrpc2.New(ts.URL)
			for k, c := range order {
				name := string(c)
				r, err := rowsOf(client, igs[name])
				if err != nil || r != alone[name] {
					fails++
					if fails <= 10 {
						fmt.Printf("BOUNDED-FAIL shared client (%s), requests %s: request %d of integration %s stores %q (err=%v), an uncached client gives %q\n", extra, order, k+1, name, r, err, alone[name])
					}
				}
			}
		}
	}
	// interleaved steps: one integration loads, another loads the same range,
	// then the first inserts what it loaded (tasks run concurrently; a later
	// load must not take away or add to what an earlier one was handed)
	for _, extra := range []string{"block_time", "tx_input"} {
		igs := map[string]dig.Integration{"A": mk(token0, extra), "B": mk(token1, extra), "U": mk("", extra), "R": mk("", extra, "tx_status")}
		for _, pair := range []string{"AB", "BA", "AU", "UA", "AR", "RA", "UR", "RU"} {
			first, second := igs[pair[:1]], igs[pair[1:]]
			alone, err := rowsOf(jrpc2.New(ts.URL), first)
			if err != nil {
				t.Fatal(err)
			}
			cases++
			client := jrpc2.New(ts.URL)
			b1, err1 := getOf(client, first)
			_, err2 := getOf(client, second)
			var got string
			if err1 == nil && err2 == nil {
				got, err1 = insertOf(first, b1)
			}
			if err1 != nil || err2 != nil || got != alone {
				fails++
				if fails <= 10 {
					fmt.Printf("BOUNDED-FAIL shared client (%s): %s loads, %s loads the same range, then %s inserts: stores %q (err=%v/%v), alone it stores %q\n", extra, pair[:1], pair[1:], pair[:1], got, err1, err2, alone)
				}
			}
		}
	}
	fmt.Printf("BOUNDED cases=%d failures=%d exhaustive=true\n", cases, fails)
	if fails > 0 {
		t.Fail()
	}
}
