package dig_test

// Bounded stand-in (labelled bounded): a step that fails at the COPY and is
// retried in the same process. For each data plan the real jrpc2.Client.Get +
// dig.Integration.Insert run once against a connection whose CopyFrom fails
// after it has read the rows, and once more (same client, same integration
// object, same range) against a healthy connection: the rows of the retry
// must be exactly the rows of a run without the fault - nothing of the failed
// attempt may be kept and written again, and re-reading a cached range must
// not duplicate what the first read attached to the shared blocks.

import (
	"context"
	"fmt"
	"sort"
	"strings"
	"sync"
	"testing"

	"github.com/indexsupply/shovel/dig"
	"github.com/indexsupply/shovel/jrpc2"
	"github.com/indexsupply/shovel/wctx"
	"github.com/indexsupply/shovel/wpg"
	"github.com/jackc/pgx/v5"
)

type failingConn struct {
	fakeConn
	fail bool
}

func (c *failingConn) CopyFrom(ctx context.Context, id pgx.Identifier, cols []string, src pgx.CopyFromSource) (int64, error) {
	n, err := c.fakeConn.CopyFrom(ctx, id, cols, src)
	if c.fail {
		c.fakeConn.rows = nil
		return 0, fmt.Errorf("copy: connection lost after %d rows", n)
	}
	return n, err
}

func TestVerifRetryBounded(t *testing.T) {
	twoLogs = true
	defer func() { twoLogs = false }()
	ts := newNode(t)
	type plan struct {
		name   string
		fields []string
		event  bool
	}
	plans := []plan{
		{"headers+logs", []string{"block_time", "log_addr", "log_idx"}, true},
		{"blocks+logs", []string{"tx_input", "log_addr", "log_idx"}, true},
		{"blocks+receipts (logs from receipts)", []string{"tx_input", "tx_status", "log_idx"}, true},
		{"headers+receipts", []string{"block_time", "tx_status", "log_idx"}, true},
		{"blocks", []string{"tx_input", "tx_value"}, false},
		{"receipts", []string{"tx_status", "tx_gas_used"}, false},
		{"traces", []string{"trace_action_idx", "trace_action_value"}, false},
	}
	mk := func(p plan) dig.Integration {
		tbl := wpg.Table{Name: "t"}
		var bd []dig.BlockData
		for _, f := range append([]string{"block_num", "tx_idx"}, p.fields...) {
			tbl.Columns = append(tbl.Columns, wpg.Column{Name: "c_" + f, Type: "text"})
			bd = append(bd, dig.BlockData{Name: f, Column: "c_" + f})
		}
		ev := dig.Event{}
		if p.event {
			tbl.Columns = append(tbl.Columns, wpg.Column{Name: "c_value", Type: "numeric"})
			ev = dig.Event{Name: "Transfer", Type: "event", Inputs: []dig.Input{
				{Indexed: true, Name: "from", Type: "address"}, {Indexed: true, Name: "to", Type: "address"}, {Name: "value", Type: "uint256", Column: "c_value"}}}
		}
		ig, err := dig.New("retry", ev, bd, tbl, dig.Notification{}, "")
		if err != nil {
			t.Fatal(err)
		}
		return ig
	}
	ctx := wctx.WithSrcName(wctx.WithChainID(context.Background(), 7), "fake")
	step := func(client *jrpc2.Client, ig dig.Integration, fail bool) ([]string, error) {
		filter := ig.Filter()
		blocks, err := client.Get(ctx, ts.URL, &filter, pStart, 2)
		if err != nil {
			return nil, err
		}
		conn := &failingConn{fail: fail}
		if _, err := ig.Insert(ctx, &sync.Mutex{}, conn, blocks); err != nil {
			return nil, err
		}
		var out []string
		for _, r := range conn.rows {
			var cells []string
			for _, v := range r {
				cells = append(cells, render(v))
			}
			out = append(out, strings.Join(cells, "|"))
		}
		sort.Strings(out)
		return out, nil
	}
	cases, fails := 0, 0
	for _, p := range plans {
		cases++
		clean, err := step(jrpc2.New(ts.URL), mk(p), false)
		if err != nil || len(clean) == 0 {
			fails++
			fmt.Printf("BOUNDED-FAIL plan %s: the run without a fault stores %d rows (err=%v)\n", p.name, len(clean), err)
			continue
		}
		client, ig := jrpc2.New(ts.URL), mk(p)
		if _, err := step(client, ig, true); err == nil {
			fails++
			fmt.Printf("BOUNDED-FAIL plan %s: the failing COPY was not reported\n", p.name)
			continue
		}
		for attempt := 2; attempt <= 3; attempt++ { // a second healthy step over the same range as well
			got, err := step(client, ig, false)
			if err != nil || strings.Join(got, "\n") != strings.Join(clean, "\n") {
				fails++
				if fails <= 10 {
					fmt.Printf("BOUNDED-FAIL plan %s: attempt %d after a failed COPY stores %d rows (err=%v), a run without the fault stores %d\n", p.name, attempt, len(got), err, len(clean))
				}
				break
			}
		}
	}
	fmt.Printf("BOUNDED cases=%d failures=%d exhaustive=true\n", cases, fails)
	if fails > 0 {
		t.Fail()
	}
}
