package dig_test

// Bounded stand-in for the pushdown half of C12 (labelled bounded): for a
// stated family of filter configurations the real dig.New -> Filter ->
// jrpc2.Client.Get -> Integration.Insert run twice against the scripted node,
// once with the node applying the eth_getLogs address restriction (as a real
// node does) and once with the node ignoring it; the stored rows must be the
// same: restricting the request must never lose a log the row filter accepts.

import (
	"context"
	"fmt"
	"sort"
	"strings"
	"sync"
	"testing"

	"github.com/indexsupply/shovel/dig"
	"github.com/indexsupply/shovel/jrpc2"
	"github.com/indexsupply/shovel/wctx"
	"github.com/indexsupply/shovel/wpg"
)

// the referenced table of reference filters in this stand-in
var pushRefTable map[string]bool

func storedRows(ts string, ig dig.Integration, honour bool) ([]string, error) {
	nodeMu.Lock()
	nodeHonourAddr = honour
	nodeMu.Unlock()
	filter := ig.Filter()
	ctx := wctx.WithSrcName(wctx.WithChainID(context.Background(), 7), "fake")
	client := jrpc2.New(ts)
	blocks, err := client.Get(ctx, ts, &filter, pStart, 2)
	if err != nil {
		return nil, fmt.Errorf("Get: %w", err)
	}
	conn := fakeConn{refTable: pushRefTable}
	if _, err := ig.Insert(ctx, &sync.Mutex{}, &conn, blocks); err != nil {
		return nil, fmt.Errorf("Insert: %w", err)
	}
	col := func(n string) int {
		for i, c := range conn.cols {
			if c == n {
				return i
			}
		}
		return -1
	}
	var out []string
	for _, r := range conn.rows {
		out = append(out, fmt.Sprintf("%s/%s/%s", render(r[col("c_block_num")]), render(r[col("c_tx_idx")]), render(r[col("c_log_idx")])))
	}
	sort.Strings(out)
	return out, nil
}

func TestVerifPushdownBounded(t *testing.T) {
	twoTokens = true
	defer func() { twoTokens = false; nodeHonourAddr = false }()
	ts := newNode(t)
	argSets := [][]string{
		{token0}, {token1}, {token0, token1}, {"0x00000000000000000000000000000000000000cc"},
		{"0x000000000000000000aa"}, // a fragment: contains matches, equality does not
		{strings.ToUpper(token0[2:])},
	}
	// value of the log of tx i in block n is 5000+10n+i: second filters that match one tx only
	second := []*dig.Filter{nil,
		{Op: "eq", Arg: []string{fmt.Sprint(5000 + 10*pStart + 0)}},
		{Op: "eq", Arg: []string{fmt.Sprint(5000 + 10*pStart + 1)}},
		{Op: "ne", Arg: []string{fmt.Sprint(5000 + 10*pStart + 1)}},
	}
	// reference-only second filters on the indexed input "to": the referenced
	// table holds the recipient of transaction 0 resp. 1 of the first block
	refs := []struct {
		table map[string]bool
	}{
		{map[string]bool{pat(0xd0, pStart, 0, 20): true}},
		{map[string]bool{pat(0xd0, pStart, 1, 20): true, pat(0xd0, pStart+1, 1, 20): true}},
	}
	cases, fails := 0, 0
	for _, op := range []string{"contains", "!contains", "eq", "ne"} {
		for _, args := range argSets {
			for _, agg := range []string{"and", "or", ""} {
				for si := 0; si < len(second)+len(refs); si++ {
					var sf *dig.Filter
					var toFilter dig.Filter
					pushRefTable = nil
					if si < len(second) {
						sf = second[si]
					} else {
						pushRefTable = refs[si-len(second)].table
						toFilter = dig.Filter{Op: "contains", Ref: dig.Ref{Integration: "other", Table: "other_t", Column: "addr"}}
					}
					tbl := wpg.Table{Name: "t"}
					var bd []dig.BlockData
					for _, f := range []string{"log_addr", "block_num", "tx_idx", "log_idx"} {
						tbl.Columns = append(tbl.Columns, wpg.Column{Name: "c_" + f, Type: "text"})
						b := dig.BlockData{Name: f, Column: "c_" + f}
						if f == "log_addr" {
							b.Filter = dig.Filter{Op: op, Arg: args}
						}
						bd = append(bd, b)
					}
					tbl.Columns = append(tbl.Columns, wpg.Column{Name: "c_value", Type: "numeric"})
					val := dig.Input{Name: "value", Type: "uint256", Column: "c_value"}
					if sf != nil {
						val.Filter = *sf
					}
					toInp := dig.Input{Indexed: true, Name: "to", Type: "address"}
					if toFilter.Op != "" {
						toInp.Column, toInp.Filter = "c_to", toFilter
						tbl.Columns = append(tbl.Columns, wpg.Column{Name: "c_to", Type: "bytea"})
					}
					ev := dig.Event{Name: "Transfer", Type: "event", Inputs: []dig.Input{
						{Indexed: true, Name: "from", Type: "address"}, toInp, val}}
					desc := fmt.Sprintf("log_addr %s %v agg=%q second=%d", op, args, agg, si)
					cases++
					ig, err := dig.New("push", ev, bd, tbl, dig.Notification{}, agg)
					if err != nil {
						continue // configuration not accepted: nothing is indexed
					}
					with, err1 := storedRows(ts.URL, ig, true)
					without, err2 := storedRows(ts.URL, ig, false)
					if err1 != nil || err2 != nil {
						fails++
						if fails <= 10 {
							fmt.Printf("BOUNDED-FAIL %s: %v / %v\n", desc, err1, err2)
						}
						continue
					}
					if strings.Join(with, ",") != strings.Join(without, ",") {
						fails++
						if fails <= 10 {
							fmt.Printf("BOUNDED-FAIL %s: with the node applying the address restriction the stored rows are %v, the row filter alone accepts %v (plan %q)\n", desc, with, without, func() string { f := ig.Filter(); return f.String() }())
						}
					}
				}
			}
		}
	}
	// a reference filter asks the referenced table every time: the table of the
	// referenced integration changes while the process runs (it grows as that
	// integration advances and shrinks when a reorg removes its rows)
	{
		tbl := wpg.Table{Name: "t"}
		var bd []dig.BlockData
		for _, f := range []string{"log_addr", "block_num", "tx_idx", "log_idx"} {
			tbl.Columns = append(tbl.Columns, wpg.Column{Name: "c_" + f, Type: "text"})
			bd = append(bd, dig.BlockData{Name: f, Column: "c_" + f})
		}
		tbl.Columns = append(tbl.Columns, wpg.Column{Name: "c_to", Type: "bytea"})
		for _, op := range []string{"contains", "!contains"} {
			ev := dig.Event{Name: "Transfer", Type: "event", Inputs: []dig.Input{
				{Indexed: true, Name: "from", Type: "address"},
				{Indexed: true, Name: "to", Type: "address", Column: "c_to", Filter: dig.Filter{Op: op, Ref: dig.Ref{Integration: "other", Table: "other_t", Column: "addr"}}},
				{Name: "value", Type: "uint256"}}}
			ig, err := dig.New("live", ev, bd, tbl, dig.Notification{}, "")
			if err != nil {
				t.Fatal(err)
			}
			x := pat(0xd0, pStart, 0, 20) // recipient of transaction 0 of the first block
			row := fmt.Sprintf("%d/0/1", pStart)
			has := func(rows []string) bool {
				for _, r := range rows {
					if r == row {
						return true
					}
				}
				return false
			}
			for step, present := range []bool{false, true, false, true} {
				pushRefTable = map[string]bool{}
				if present {
					pushRefTable[x] = true
				}
				cases++
				rows, err := storedRows(ts.URL, ig, true)
				want := present == (op == "contains")
				if err != nil || has(rows) != want {
					fails++
					if fails <= 10 {
						fmt.Printf("BOUNDED-FAIL reference filter %s, step %d: the referenced table contains the recipient: %v, the row is stored: %v (err=%v)\n", op, step, present, has(rows), err)
					}
				}
			}
		}
		pushRefTable = nil
	}
	fmt.Printf("BOUNDED cases=%d failures=%d exhaustive=true\n", cases, fails)
	if fails > 0 {
		t.Fail()
	}
}
