package dig_test

// Bounded stand-in for C14 (labelled bounded): every field name the row
// builder understands, alone and in every pair, in each indexing mode, is
// run through the real dig.New -> Integration.Filter (glf plan) ->
// jrpc2.Client.Get -> Integration.Insert against a scripted JSON-RPC node in
// which every field of every item has a distinct non-zero value; each stored
// column must equal what the node reports.

import (
	"context"
	"encoding/json"
	"fmt"
	"go/ast"
	"go/parser"
	"go/token"
	"io"
	"math/rand"
	"net/http"
	"net/http/httptest"
	"os"
	"sort"
	"strconv"
	"strings"
	"sync"
	"testing"

	"github.com/holiman/uint256"
	"github.com/indexsupply/shovel/dig"
	"github.com/indexsupply/shovel/eth"
	"github.com/indexsupply/shovel/jrpc2"
	"github.com/indexsupply/shovel/wctx"
	"github.com/indexsupply/shovel/wpg"
	"github.com/jackc/pgx/v5"
	"github.com/jackc/pgx/v5/pgconn"
)

const (
	pStart  = 100
	pTxs    = 2
	pTraces = 2
	token0  = "0x00000000000000000000000000000000000000aa"
	token1  = "0x00000000000000000000000000000000000000bb"
)

// address of the log of transaction i; with two tokens only when a harness asks for it
var twoTokens bool

func logAddr(i uint64) string {
	if twoTokens && i%2 == 1 {
		return token1
	}
	return token0
}

// a real node applies the address restriction of eth_getLogs; the stand-in does so on request
var nodeHonourAddr bool

var transferSig = eth.EncodeHex(eth.Keccak([]byte("Transfer(address,address,uint256)")))

func hx(n uint64) string { return "0x" + strconv.FormatUint(n, 16) }

func pat(tag byte, a, b uint64, n int) string {
	p := make([]byte, n)
	for i := range p {
		p[i] = tag
	}
	p[n-2], p[n-1] = byte(a), byte(b)
	return eth.EncodeHex(p)
}

func word(a string) string { return "0x" + strings.Repeat("0", 24) + strings.TrimPrefix(a, "0x") }

// expected value of a field for block n, tx i, trace k (rendered canonically)
func expect(name string, n, i, k uint64) (string, bool) {
	switch name {
	case "src_name":
		return "fake", true
	case "ig_name":
		return "plan", true
	case "chain_id":
		return "7", true
	case "block_hash":
		return pat(0xb0, n>>8, n, 32), true
	case "block_num":
		return fmt.Sprint(n), true
	case "block_time":
		return fmt.Sprint(1700000000 + 12*n), true
	case "tx_hash":
		return pat(0xc0, n, i, 32), true
	case "tx_idx":
		return fmt.Sprint(i), true
	case "tx_signer":
		return pat(0xf0, n, i, 20), true
	case "tx_to":
		return pat(0xd0, n, i, 20), true
	case "tx_value":
		return fmt.Sprint(7000000 + 10*n + i), true
	case "tx_input":
		return pat(0xe0, n, i, 36), true
	case "tx_type":
		return "2", true
	case "tx_status":
		return "1", true
	case "tx_gas_used":
		return fmt.Sprint(21000 + 100*n + i), true
	case "tx_gas_price":
		return fmt.Sprint(30000000000 + i), true
	case "tx_effective_gas_price":
		return fmt.Sprint(31000000000 + i), true
	case "tx_contract_address":
		return pat(0xca, n, i, 20), true
	case "tx_max_priority_fee_per_gas":
		return fmt.Sprint(2000000000 + i), true
	case "tx_max_fee_per_gas":
		return fmt.Sprint(40000000000 + i), true
	case "tx_nonce":
		return fmt.Sprint(1000*n + i + 1), true
	case "log_idx":
		return fmt.Sprint(i + 1), true
	case "log_addr":
		return logAddr(i), true
	case "trace_action_call_type":
		return fmt.Sprintf("call%d", k), true
	case "trace_action_idx":
		return fmt.Sprint(k), true
	case "trace_action_from":
		return pat(0x7f, trA(n, i), k, 20), true
	case "trace_action_to":
		return pat(0x7d, trA(n, i), k, 20), true
	case "trace_action_value":
		return fmt.Sprint(900 + 100*(n%50) + 10*i + k), true
	}
	return "", false
}

func render(v any) string {
	switch x := v.(type) {
	case []byte:
		return eth.EncodeHex(x)
	case eth.Bytes:
		return eth.EncodeHex(x)
	case eth.Uint64:
		return fmt.Sprint(uint64(x))
	case eth.Byte:
		return fmt.Sprint(uint64(x))
	case uint64:
		return fmt.Sprint(x)
	case int:
		return fmt.Sprint(x)
	case string:
		return x
	case *uint256.Int:
		return x.Dec()
	case nil:
		return "<nil>"
	}
	return fmt.Sprintf("%v", v)
}

// blocks the scripted node reports without transactions (hence without
// receipts, logs and traces)
var nodeEmpty = map[uint64]bool{}

// blocks with fewer transactions than the others
var nodeTxs = map[uint64]uint64{}

func txsOf(n uint64) uint64 {
	if nodeEmpty[n] {
		return 0
	}
	if v, ok := nodeTxs[n]; ok {
		return v
	}
	return pTxs
}

// trace data differ from block to block as well
func trA(n, i uint64) uint64 { return 16*(n%8) + i }

// twoLogs: every transaction emits two logs, the first from token0 and the
// second from token1 (log indexes 2i+1 and 2i+2)
var twoLogs bool

func mkLog2(n, i, j uint64) map[string]any {
	l := mkLog(n, i)
	l["address"] = []string{token0, token1}[j]
	l["logIndex"] = hx(2*i + 1 + j)
	l["data"] = "0x" + fmt.Sprintf("%064x", 5000+100*n+10*i+j)
	return l
}

func logsOfTx(n, i uint64) []any {
	if twoLogs {
		return []any{mkLog2(n, i, 0), mkLog2(n, i, 1)}
	}
	return []any{mkLog(n, i)}
}

func mkLog(n, i uint64) map[string]any {
	return map[string]any{
		"address": logAddr(i), "topics": []string{transferSig, word(pat(0xf0, n, i, 20)), word(pat(0xd0, n, i, 20))},
		"data": "0x" + fmt.Sprintf("%064x", 5000+10*n+i), "logIndex": hx(i + 1), "blockNumber": hx(n), "blockHash": pat(0xb0, n>>8, n, 32),
		"transactionHash": pat(0xc0, n, i, 32), "transactionIndex": hx(i), "removed": false,
	}
}

func mkTx(n, i uint64) map[string]any {
	return map[string]any{
		"hash": pat(0xc0, n, i, 32), "transactionIndex": hx(i), "type": "0x2", "nonce": hx(1000*n + i + 1),
		"gasPrice": hx(30000000000 + i), "gas": hx(90000), "from": pat(0xf0, n, i, 20), "to": pat(0xd0, n, i, 20),
		"value": hx(7000000 + 10*n + i), "input": pat(0xe0, n, i, 36), "v": "0x1", "r": "0x1", "s": "0x1",
		"maxPriorityFeePerGas": hx(2000000000 + i), "maxFeePerGas": hx(40000000000 + i), "blockNumber": hx(n), "blockHash": pat(0xb0, n>>8, n, 32),
	}
}

func mkBlock(n uint64, full bool) map[string]any {
	b := map[string]any{"number": hx(n), "hash": pat(0xb0, n>>8, n, 32), "parentHash": pat(0xb0, (n-1)>>8, n-1, 32), "timestamp": hx(1700000000 + 12*n), "logsBloom": "0x00"}
	txs := []any{}
	for i := uint64(0); i < txsOf(n); i++ {
		if full {
			txs = append(txs, mkTx(n, i))
		} else {
			txs = append(txs, pat(0xc0, n, i, 32))
		}
	}
	b["transactions"] = txs
	return b
}

func mkReceipts(n uint64) []any {
	rs := []any{}
	for i := uint64(0); i < txsOf(n); i++ {
		rs = append(rs, map[string]any{
			"blockHash": pat(0xb0, n>>8, n, 32), "blockNumber": hx(n), "transactionHash": pat(0xc0, n, i, 32), "transactionIndex": hx(i), "type": "0x2",
			"from": pat(0xf0, n, i, 20), "to": pat(0xd0, n, i, 20), "status": "0x1", "gasUsed": hx(21000 + 100*n + i),
			"effectiveGasPrice": hx(31000000000 + i), "contractAddress": pat(0xca, n, i, 20), "logs": logsOfTx(n, i),
		})
	}
	return rs
}

func mkTraces(n uint64) []any {
	out := []any{}
	for i := uint64(0); i < txsOf(n); i++ {
		for k := uint64(0); k < pTraces; k++ {
			out = append(out, map[string]any{
				"blockHash": pat(0xb0, n>>8, n, 32), "blockNumber": n, "transactionHash": pat(0xc0, n, i, 32), "transactionPosition": i,
				"action": map[string]any{"from": pat(0x7f, trA(n, i), k, 20), "callType": fmt.Sprintf("call%d", k), "to": pat(0x7d, trA(n, i), k, 20), "value": hx(900 + 100*(n%50) + 10*i + k)},
			})
		}
	}
	return out
}

type rpcReq struct {
	ID     any               `json:"id"`
	Method string            `json:"method"`
	Params []json.RawMessage `json:"params"`
}

func parseNum(raw json.RawMessage) uint64 {
	var s string
	json.Unmarshal(raw, &s)
	n, _ := strconv.ParseUint(strings.TrimPrefix(s, "0x"), 16, 64)
	return n
}

// nodeHead > 0: a lagging node that has not seen the blocks above nodeHead
// (null for blocks, receipts and traces above it; eth_getLogs silently
// returns the logs of the part of the range it knows)
var nodeHead uint64

func answer(r rpcReq) map[string]any {
	res := map[string]any{"jsonrpc": "2.0", "id": r.ID}
	unseen := func(n uint64) bool { return nodeHead > 0 && n > nodeHead }
	switch r.Method {
	case "eth_getBlockByNumber":
		var full bool
		json.Unmarshal(r.Params[1], &full)
		if n := parseNum(r.Params[0]); unseen(n) {
			res["result"] = nil
		} else {
			res["result"] = mkBlock(n, full)
		}
	case "eth_getBlockReceipts":
		if n := parseNum(r.Params[0]); unseen(n) {
			res["result"] = nil
		} else {
			res["result"] = mkReceipts(n)
		}
	case "trace_block":
		if n := parseNum(r.Params[0]); unseen(n) {
			res["result"] = nil
		} else {
			res["result"] = mkTraces(n)
		}
	case "eth_getLogs":
		var f struct {
			From    string   `json:"fromBlock"`
			To      string   `json:"toBlock"`
			Address []string `json:"address"`
		}
		json.Unmarshal(r.Params[0], &f)
		from, _ := strconv.ParseUint(strings.TrimPrefix(f.From, "0x"), 16, 64)
		to, _ := strconv.ParseUint(strings.TrimPrefix(f.To, "0x"), 16, 64)
		logs := []any{}
		for n := from; n <= to && !unseen(n); n++ {
			for i := uint64(0); i < txsOf(n); i++ {
				for _, l := range logsOfTx(n, i) {
					if nodeHonourAddr && len(f.Address) > 0 {
						keep := false
						for _, a := range f.Address {
							keep = keep || strings.EqualFold(a, l.(map[string]any)["address"].(string))
						}
						if !keep {
							continue
						}
					}
					logs = append(logs, l)
				}
			}
		}
		res["result"] = logs
	default:
		res["error"] = map[string]any{"code": -32601, "message": "no such method " + r.Method}
	}
	return res
}

// corruption applied to the next matching response (nil = honest node)
type corruption struct {
	name   string
	method string // RPC method of the batch (first element) it applies to
	apply  func(out []any) []any
	status int
	trunc  bool
	// keepBody: a non-2xx status with the honest, well-formed body; mustFail:
	// accepting the response is a failure whatever data comes out
	keepBody bool
	mustFail bool
	// what the source "reports" under this corruption, where it differs from
	// the honest node (a log set naming another block hash)
	expect func(name string, n, i, k uint64) (string, bool)
}

// several integrations on one source share one client (and its caches)
var sharedClient *jrpc2.Client

// set by runSetN: the last run was rejected with an error
var lastRejected bool
var expectHook func(name string, n, i, k uint64) (string, bool)

var (
	nodeMu      sync.Mutex
	nodeCorrupt *corruption
	// a second corruption on another RPC method (thorough tier: combined corruptions)
	nodeCorrupt2 *corruption
	nodeHits     int
	nodeHits2    int
)

func newNode(t *testing.T) *httptest.Server {
	var mu sync.Mutex
	ts := httptest.NewServer(http.HandlerFunc(func(w http.ResponseWriter, r *http.Request) {
		body, _ := io.ReadAll(r.Body)
		mu.Lock()
		defer mu.Unlock()
		var batch []rpcReq
		if err := json.Unmarshal(body, &batch); err == nil {
			out := make([]any, len(batch))
			for i := range batch {
				out[i] = answer(batch[i])
			}
			nodeMu.Lock()
			matches := func(c *corruption) bool {
				if c == nil || len(batch) == 0 {
					return false
				}
				if c.method == "eth_getLogs" {
					return len(batch) == 2 && batch[1].Method == "eth_getLogs"
				}
				for _, b := range batch {
					if b.Method != c.method {
						return false
					}
				}
				return true
			}
			c := nodeCorrupt
			match := matches(c)
			if match {
				nodeHits++
			} else if matches(nodeCorrupt2) {
				c, match = nodeCorrupt2, true
				nodeHits2++
			}
			nodeMu.Unlock()
			if match {
				if c.status != 0 && !c.keepBody {
					w.WriteHeader(c.status)
					w.Write([]byte("upstream error"))
					return
				}
				if c.status != 0 {
					w.WriteHeader(c.status)
				}
				if c.apply != nil {
					func() {
						defer func() { recover() }()
						out = c.apply(out)
					}()
				}
				if c.trunc {
					b, _ := json.Marshal(out)
					w.Write(b[:len(b)/2])
					return
				}
			}
			json.NewEncoder(w).Encode(out)
			return
		}
		var one rpcReq
		json.Unmarshal(body, &one)
		json.NewEncoder(w).Encode(answer(one))
	}))
	t.Cleanup(ts.Close)
	return ts
}

type fakeConn struct {
	cols []string
	rows [][]any
	// contents of the referenced table for filter references (hex of the value)
	refTable map[string]bool
}

type refRow struct{ found bool }

func (r refRow) Scan(dest ...any) error {
	if !r.found {
		return pgx.ErrNoRows
	}
	if len(dest) == 1 {
		if b, ok := dest[0].(*bool); ok {
			*b = true
		}
	}
	return nil
}

func (c *fakeConn) CopyFrom(_ context.Context, _ pgx.Identifier, cols []string, src pgx.CopyFromSource) (int64, error) {
	c.cols = cols
	var n int64
	for src.Next() {
		v, err := src.Values()
		if err != nil {
			return n, err
		}
		c.rows = append(c.rows, v)
		n++
	}
	return n, src.Err()
}
func (c *fakeConn) Exec(context.Context, string, ...any) (pgconn.CommandTag, error) {
	return pgconn.CommandTag{}, nil
}
func (c *fakeConn) QueryRow(_ context.Context, _ string, args ...any) pgx.Row {
	if len(args) == 1 {
		if b, ok := args[0].([]byte); ok {
			return refRow{c.refTable[eth.EncodeHex(b)]}
		}
	}
	return refRow{}
}
func (c *fakeConn) Query(context.Context, string, ...any) (pgx.Rows, error) {
	return nil, fmt.Errorf("no Query")
}

// field names of the row builder, read from the source
func getFields(t *testing.T) []string {
	fset := token.NewFileSet()
	f, err := parser.ParseFile(fset, "dig.go", nil, 0)
	if err != nil {
		t.Fatal(err)
	}
	var out []string
	ast.Inspect(f, func(n ast.Node) bool {
		fd, ok := n.(*ast.FuncDecl)
		if !ok || fd.Name.Name != "get" || fd.Recv == nil {
			return true
		}
		ast.Inspect(fd.Body, func(m ast.Node) bool {
			cc, ok := m.(*ast.CaseClause)
			if !ok {
				return true
			}
			for _, e := range cc.List {
				if bl, ok := e.(*ast.BasicLit); ok && bl.Kind == token.STRING {
					s, _ := strconv.Unquote(bl.Value)
					out = append(out, s)
				}
			}
			return true
		})
		return false
	})
	sort.Strings(out)
	return out
}

func kind(name string) string {
	switch {
	case strings.HasPrefix(name, "trace_"):
		return "trace"
	case strings.HasPrefix(name, "log_"):
		return "log"
	}
	return "tx"
}

func runSet(t *testing.T, ts *httptest.Server, mode string, set []string) []string {
	return runSetN(t, ts, mode, set, 1, false)
}

// runSetN: limit blocks starting at pStart; tolerateErr: an error from Get is an acceptable outcome
func runSetN(t *testing.T, ts *httptest.Server, mode string, set []string, limit uint64, tolerateErr bool) []string {
	var fails []string
	lastRejected = false
	fields := append([]string{}, set...)
	need := []string{"tx_idx"}
	if mode == "log" {
		need = append(need, "log_idx")
	}
	if mode == "trace" {
		need = append(need, "trace_action_idx")
	}
	for _, r := range need {
		dup := false
		for _, f := range fields {
			dup = dup || f == r
		}
		if !dup {
			fields = append(fields, r)
		}
	}
	tbl := wpg.Table{Name: "t"}
	var bd []dig.BlockData
	for _, f := range fields {
		tbl.Columns = append(tbl.Columns, wpg.Column{Name: "c_" + f, Type: "text"})
		bd = append(bd, dig.BlockData{Name: f, Column: "c_" + f})
	}
	ev := dig.Event{}
	if mode == "log" {
		tbl.Columns = append(tbl.Columns, wpg.Column{Name: "c_value", Type: "numeric"})
		ev = dig.Event{Name: "Transfer", Type: "event", Inputs: []dig.Input{
			{Indexed: true, Name: "from", Type: "address"}, {Indexed: true, Name: "to", Type: "address"}, {Name: "value", Type: "uint256", Column: "c_value"}}}
	}
	ig, err := dig.New("plan", ev, bd, tbl, dig.Notification{}, "")
	if err != nil {
		return []string{fmt.Sprintf("%s %v: dig.New: %v", mode, set, err)}
	}
	filter := ig.Filter()
	ctx := wctx.WithSrcName(wctx.WithChainID(context.Background(), 7), "fake")
	client := sharedClient
	if client == nil {
		client = jrpc2.New(ts.URL)
	}
	var blocks []eth.Block
	var conn fakeConn
	func() {
		defer func() {
			if r := recover(); r != nil {
				fails = append(fails, fmt.Sprintf("%s %v plan=%q: panic: %v", mode, set, filter.String(), r))
			}
		}()
		var err error
		blocks, err = client.Get(ctx, ts.URL, &filter, pStart, limit)
		if err != nil {
			if tolerateErr {
				lastRejected = true
				fails = append(fails, "ERR")
				return
			}
			fails = append(fails, fmt.Sprintf("%s %v plan=%q: Get: %v", mode, set, filter.String(), err))
			return
		}
		if _, err := ig.Insert(ctx, &sync.Mutex{}, &conn, blocks); err != nil {
			fails = append(fails, fmt.Sprintf("%s %v plan=%q: Insert: %v", mode, set, filter.String(), err))
		}
	}()
	if len(fails) == 1 && fails[0] == "ERR" {
		return nil // rejected: fine
	}
	if len(fails) > 0 {
		return fails
	}
	wantRows := 0
	for n := uint64(pStart); n < pStart+limit; n++ {
		if mode == "trace" {
			wantRows += int(txsOf(n)) * pTraces
		} else {
			wantRows += int(txsOf(n))
		}
	}
	if len(conn.rows) != wantRows {
		return []string{fmt.Sprintf("%s %v plan=%q: %d rows stored, want %d", mode, set, filter.String(), len(conn.rows), wantRows)}
	}
	col := func(name string) int {
		for i, c := range conn.cols {
			if c == "c_"+name {
				return i
			}
		}
		return -1
	}
	if col("block_num") < 0 && limit > 1 {
		return []string{"harness: block_num must be selected for ranges"}
	}
	seen := map[[3]uint64]bool{}
	for _, row := range conn.rows {
		bn := uint64(pStart)
		if col("block_num") >= 0 {
			bn, _ = strconv.ParseUint(render(row[col("block_num")]), 10, 64)
		}
		// rows are identified by the identity columns (always part of the declaration), not by their order
		i, _ := strconv.ParseUint(render(row[col("tx_idx")]), 10, 64)
		k := uint64(0)
		if mode == "trace" {
			k, _ = strconv.ParseUint(render(row[col("trace_action_idx")]), 10, 64)
		}
		if seen[[3]uint64{bn, i, k}] || i >= txsOf(bn) || k >= pTraces || bn < pStart || bn >= pStart+limit {
			fails = append(fails, fmt.Sprintf("%s %v plan=%q: duplicate or out-of-range row identity block_num=%d tx_idx=%d trace_action_idx=%d", mode, set, filter.String(), bn, i, k))
			continue
		}
		seen[[3]uint64{bn, i, k}] = true
		for _, f := range set {
			want, _ := expect(f, bn, i, k)
			if expectHook != nil {
				if w2, ok := expectHook(f, bn, i, k); ok {
					want = w2
				}
			}
			ci := col(f)
			if ci < 0 {
				fails = append(fails, fmt.Sprintf("%s %v: column for %s missing", mode, set, f))
				continue
			}
			if got := render(row[ci]); got != want {
				fails = append(fails, fmt.Sprintf("%s %v plan=%q: %s stored %s, source reports %s", mode, set, filter.String(), f, got, want))
			}
		}
	}
	return fails
}

func TestVerifPlanBounded(t *testing.T) {
	if _, err := os.Stat("dig.go"); err != nil {
		t.Fatal(err)
	}
	ts := newNode(t)
	all := getFields(t)
	for _, f := range all {
		if _, ok := expect(f, 1, 1, 1); !ok {
			fmt.Printf("BOUNDED-FAIL field %q of the row builder is unknown to the stand-in (update harness/plan)\n", f)
			fmt.Printf("BOUNDED cases=1 failures=1 exhaustive=true\n")
			t.FailNow()
		}
	}
	cases, nfail := 0, 0
	for _, mode := range []string{"tx", "log", "trace"} {
		var fs []string
		for _, f := range all {
			switch kind(f) {
			case "tx":
				fs = append(fs, f)
			case "log":
				if mode == "log" {
					fs = append(fs, f)
				}
			case "trace":
				if mode == "trace" {
					fs = append(fs, f)
				}
			}
		}
		var sets [][]string
		for i, a := range fs {
			sets = append(sets, []string{a})
			for _, b := range fs[i+1:] {
				sets = append(sets, []string{a, b}, []string{b, a})
			}
		}
		for _, s := range sets {
			cases++
			for _, msg := range runSet(t, ts, mode, s) {
				nfail++
				if nfail <= 12 {
					fmt.Println("BOUNDED-FAIL " + msg)
				}
			}
		}
	}
	// thorough tier: larger field sets at random (seeded), all modes
	if os.Getenv("VERIF_TIER") == "thorough" {
		seed, _ := strconv.ParseInt(os.Getenv("VERIF_SEED"), 10, 64)
		rng := rand.New(rand.NewSource(seed + 1))
		for _, mode := range []string{"tx", "log", "trace"} {
			var fs []string
			for _, f := range all {
				if kind(f) == "tx" || kind(f) == mode {
					fs = append(fs, f)
				}
			}
			for n := 0; n < 400; n++ {
				k := 3 + rng.Intn(6)
				perm := rng.Perm(len(fs))
				var set []string
				for _, i := range perm[:k] {
					set = append(set, fs[i])
				}
				cases++
				for _, msg := range runSet(t, ts, mode, set) {
					nfail++
					if nfail <= 12 {
						fmt.Println("BOUNDED-FAIL " + msg)
					}
				}
			}
		}
	}
	// integrations with different data plans on ONE client, same window, in
	// both orders and twice each (cache hits): what one plan cached must not be
	// served to a plan that needs more
	plans := []struct {
		mode string
		set  []string
	}{
		{"log", []string{"block_num", "block_time", "log_addr"}},             // headers + logs
		{"tx", []string{"block_num", "block_time", "tx_input", "tx_nonce"}},  // blocks
		{"tx", []string{"block_num", "tx_status", "tx_gas_used"}},            // receipts
		{"tx", []string{"block_num", "block_time", "tx_input", "tx_status"}}, // blocks + receipts
		{"trace", []string{"block_num", "block_time", "trace_action_from"}},  // traces
		{"log", []string{"block_num", "tx_input", "log_addr", "tx_nonce"}},   // blocks + logs
	}
	for i := range plans {
		for j := range plans {
			if i == j {
				continue
			}
			sharedClient = jrpc2.New(ts.URL)
			cases++
			for round := 0; round < 2; round++ {
				for _, k := range []int{i, j} {
					for _, msg := range runSetN(t, ts, plans[k].mode, plans[k].set, 2, false) {
						nfail++
						if nfail <= 12 {
							fmt.Printf("BOUNDED-FAIL shared client, plans %v then %v (round %d): %s\n", plans[i].set, plans[j].set, round, msg)
						}
					}
				}
			}
			sharedClient = nil
		}
	}
	// one client, one plan, the same first block with different lengths (two
	// integrations with different stop settings): a cached longer segment must
	// not be served for a shorter request, nor the other way round
	for _, pl := range plans {
		for _, lens := range [][2]uint64{{2, 1}, {1, 2}, {3, 2}} {
			sharedClient = jrpc2.New(ts.URL)
			cases++
			for _, l := range []uint64{lens[0], lens[1], lens[0]} {
				for _, msg := range runSetN(t, ts, pl.mode, pl.set, l, false) {
					nfail++
					if nfail <= 12 {
						fmt.Printf("BOUNDED-FAIL shared client, plan %v, lengths %v, request of %d blocks: %s\n", pl.set, lens, l, msg)
					}
				}
			}
			sharedClient = nil
		}
	}
	// blocks without transactions inside a batch: the blocks around them must
	// still get all their rows (6 data plans x batches of 3 with the first,
	// the middle, the last, the first two or all blocks empty)
	for _, pl := range plans {
		for _, empty := range [][]uint64{{0}, {1}, {2}, {0, 1}, {0, 1, 2}} {
			for _, e := range empty {
				nodeEmpty[pStart+e] = true
			}
			cases++
			// the client rejects an empty trace_block answer outright (it
			// cannot tell an empty block from a node that has no traces):
			// an error is not a wrong value, so it is accepted for the trace plan
			for _, msg := range runSetN(t, ts, pl.mode, pl.set, 3, pl.mode == "trace") {
				nfail++
				if nfail <= 12 {
					fmt.Printf("BOUNDED-FAIL batch of 3 with empty blocks at offsets %v: %s\n", empty, msg)
				}
			}
			nodeEmpty = map[uint64]bool{}
		}
	}
	// neighbouring blocks with different numbers of transactions in one batch
	// (what is collected for one block must not leak into the next)
	for _, pl := range plans {
		for _, counts := range [][]uint64{{2, 1}, {1, 2}, {2, 1, 2}} {
			for off, c := range counts {
				nodeTxs[pStart+uint64(off)] = c
			}
			cases++
			for round := 0; round < 3; round++ { // map iteration order varies from run to run
				for _, msg := range runSetN(t, ts, pl.mode, pl.set, uint64(len(counts)), false) {
					nfail++
					if nfail <= 12 {
						fmt.Printf("BOUNDED-FAIL batch with %v transactions per block: %s\n", counts, msg)
					}
				}
			}
			nodeTxs = map[uint64]uint64{}
		}
	}
	fmt.Printf("BOUNDED cases=%d failures=%d exhaustive=true\n", cases, nfail)
	if nfail > 0 {
		t.Fail()
	}
}
