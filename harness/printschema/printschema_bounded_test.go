package main

// Bounded stand-in for the printed-definition half of C16 (labelled bounded):
// the real program is built from the tree under check and run with
// -print-schema on configurations in which integrations share a table. The
// printed statements are executed against a model of "create table if not
// exists" (the first definition of a table wins); afterwards every column an
// integration writes, and every column of its unique key, must exist in its
// table.

import (
	"encoding/json"
	"fmt"
	"os"
	"os/exec"
	"path/filepath"
	"regexp"
	"strings"
	"testing"

	"github.com/indexsupply/shovel/shovel/config"
)

func TestVerifPrintSchemaBounded(t *testing.T) {
	bin := filepath.Join(t.TempDir(), "shovel-under-check")
	if out, err := exec.Command("go", "build", "-o", bin, ".").CombinedOutput(); err != nil {
		fmt.Printf("BOUNDED-FAIL building cmd/shovel: %v\n%s\n", err, out)
		fmt.Printf("BOUNDED cases=1 failures=1 exhaustive=true\n")
		t.FailNow()
	}
	ig := func(name, table string, cols ...string) string {
		var cs, ins []string
		for _, c := range cols {
			cs = append(cs, `{"name":"`+c+`","type":"bytea"}`)
			ins = append(ins, `{"indexed":true,"name":"`+c+`","type":"address","column":"`+c+`"}`)
		}
		return `{"name":"` + name + `","enabled":true,"sources":[{"name":"m"}],"table":{"name":"` + table + `","columns":[` + strings.Join(cs, ",") + `]},
 "block":[{"name":"tx_hash","column":"h_` + name + `"}],
 "event":{"name":"E","type":"event","inputs":[` + strings.Join(ins, ",") + `]}}`
	}
	// the block field column h_<name> is declared per integration too
	withH := func(s, name string) string {
		return strings.Replace(s, `"columns":[`, `"columns":[{"name":"h_`+name+`","type":"bytea"},`, 1)
	}
	a := withH(ig("a", "shared", "from", "to"), "a")
	b := withH(ig("b", "shared", "owner", "spender"), "b")
	c := withH(ig("c", "own", "who"), "c")
	// d runs on a source that only the database defines (added through the
	// dashboard): the file alone cannot resolve it, and must not try to
	d := strings.Replace(withH(ig("d", "own_d", "who"), "d"), `"sources":[{"name":"m"}]`, `"sources":[{"name":"dashboard_source"}]`, 1)
	orders := [][]string{{a, b, c}, {b, a, c}, {c, b, a}, {a, c}, {b}, {a, d}}
	cases, fails := 0, 0
	for oi, igs := range orders {
		cases++
		txt := `{"pg_url":"postgres:///x","eth_sources":[{"name":"m","chain_id":1,"url":"http://127.0.0.1:1"}],"integrations":[` + strings.Join(igs, ",") + `]}`
		file := filepath.Join(t.TempDir(), "conf.json")
		os.WriteFile(file, []byte(txt), 0o644)
		out, err := exec.Command(bin, "-config", file, "-print-schema").CombinedOutput()
		if err != nil {
			fails++
			fmt.Printf("BOUNDED-FAIL order %d: -print-schema: %v\n%s\n", oi, err, out)
			continue
		}
		// the model database
		tables := map[string]map[string]bool{}
		createRe := regexp.MustCompile(`(?s)^create table if not exists (\S+?)\s*\((.*)\)$`)
		alterRe := regexp.MustCompile(`(?s)^alter table (\S+) add column if not exists (\S+)`)
		for _, stmt := range strings.Split(string(out), ";") {
			stmt = strings.Join(strings.Fields(stmt), " ")
			if m := createRe.FindStringSubmatch(stmt); m != nil {
				if _, exists := tables[m[1]]; exists {
					continue // if not exists: the first definition wins
				}
				tables[m[1]] = map[string]bool{}
				for _, col := range strings.Split(m[2], ",") {
					f := strings.Fields(col)
					if len(f) > 0 {
						tables[m[1]][strings.Trim(f[0], `"`)] = true
					}
				}
			} else if m := alterRe.FindStringSubmatch(stmt); m != nil && tables[m[1]] != nil {
				tables[m[1]][strings.Trim(m[2], `"`)] = true
			}
		}
		// what each integration writes, from the same configuration as the program sees it
		var conf config.Root
		if err := json.Unmarshal([]byte(txt), &conf); err != nil {
			t.Fatal(err)
		}
		if err := config.ValidateFix(&conf); err != nil {
			t.Fatal(err)
		}
		for _, ig := range conf.Integrations {
			have := tables[ig.Table.Name]
			if have == nil {
				fails++
				fmt.Printf("BOUNDED-FAIL order %d: no table %s in the printed definitions\n", oi, ig.Table.Name)
				continue
			}
			var missing []string
			for _, col := range ig.Table.Columns {
				if !have[col.Name] {
					missing = append(missing, col.Name)
				}
			}
			for _, u := range ig.Table.Unique {
				for _, col := range u {
					if !have[col] {
						missing = append(missing, "unique:"+col)
					}
				}
			}
			if len(missing) > 0 {
				fails++
				if fails <= 10 {
					fmt.Printf("BOUNDED-FAIL order %d: after executing the printed definitions table %s lacks %v, which integration %s writes\n", oi, ig.Table.Name, missing, ig.Name)
				}
			}
		}
	}
	fmt.Printf("BOUNDED cases=%d failures=%d exhaustive=true\n", cases, fails)
	if fails > 0 {
		t.Fail()
	}
}
