package config_test

// Bounded stand-in for C15 (labelled bounded, never counted as proved): every
// string-valued position of a configuration tree (found by reflection, so a
// new field is covered without touching this file) is replaced in turn by
// hostile strings; whenever validation accepts the configuration - through the
// file path (ValidateFix) or the dashboard path (CheckUserInput alone) - the
// real DDL, Migrate, dig.New, Integration.Insert (with filter references and
// notifications exercised) and Integration.Delete run against a recording
// connection, and no SQL text may contain the marker. Chain data carrying the
// marker must arrive as parameters or COPY data only.

import (
	"context"
	"encoding/json"
	"fmt"
	"reflect"
	"strings"
	"sync"
	"testing"

	"github.com/indexsupply/shovel/dig"
	"github.com/indexsupply/shovel/eth"
	"github.com/indexsupply/shovel/shovel/config"
	"github.com/indexsupply/shovel/wctx"
	"github.com/indexsupply/shovel/wpg"
	"github.com/jackc/pgx/v5"
	"github.com/jackc/pgx/v5/pgconn"
)

const marker = "zzMARKzz"

var hostile = []string{
	"x'; drop table " + marker + "; --",
	marker + " or 1=1",
	`"` + marker + `"`,
	marker + ")",
}

type recPG struct {
	mu   sync.Mutex
	sql  []string
	copy int
}

func (p *recPG) rec(q string) { p.mu.Lock(); p.sql = append(p.sql, q); p.mu.Unlock() }
func (p *recPG) CopyFrom(_ context.Context, id pgx.Identifier, cols []string, src pgx.CopyFromSource) (int64, error) {
	// the table and column identifiers of COPY are SQL text too (pgx quotes
	// them, the property asks for the identifier check all the same)
	q := make([]string, len(cols))
	for i, c := range cols {
		q[i] = pgx.Identifier{c}.Sanitize()
	}
	p.rec("copy " + id.Sanitize() + " (" + strings.Join(q, ", ") + ") from stdin")
	var n int64
	for src.Next() {
		if _, err := src.Values(); err != nil {
			return n, err
		}
		n++
	}
	p.mu.Lock()
	p.copy += int(n)
	p.mu.Unlock()
	return n, src.Err()
}
func (p *recPG) Exec(_ context.Context, q string, _ ...any) (pgconn.CommandTag, error) {
	p.rec(q)
	return pgconn.CommandTag{}, nil
}

type boolRow struct{}

func (boolRow) Scan(dest ...any) error {
	if len(dest) == 1 {
		if b, ok := dest[0].(*bool); ok {
			*b = true
		}
	}
	return nil
}
func (p *recPG) QueryRow(_ context.Context, q string, _ ...any) pgx.Row { p.rec(q); return boolRow{} }

type noRows struct{}

func (noRows) Close()                                       {}
func (noRows) Err() error                                   { return nil }
func (noRows) CommandTag() pgconn.CommandTag                { return pgconn.CommandTag{} }
func (noRows) FieldDescriptions() []pgconn.FieldDescription { return nil }
func (noRows) Next() bool                                   { return false }
func (noRows) Scan(...any) error                            { return nil }
func (noRows) Values() ([]any, error)                       { return nil, nil }
func (noRows) RawValues() [][]byte                          { return nil }
func (noRows) Conn() *pgx.Conn                              { return nil }

func (p *recPG) Query(_ context.Context, q string, _ ...any) (pgx.Rows, error) {
	p.rec(q)
	return noRows{}, nil
}

func sw32(n byte) []byte { b := make([]byte, 32); b[31] = n; return b }

func baseConf() config.Root {
	ev := dig.Event{Name: "Items", Type: "event", Inputs: []dig.Input{
		{Indexed: true, Name: "from", Type: "address", Column: "f",
			Filter: dig.Filter{Op: "contains", Ref: dig.Ref{Integration: "other", Column: "addr"}}},
		{Indexed: true, Name: "to", Type: "address"},
		{Name: "items", Type: "tuple[]", Components: []dig.Input{
			{Name: "a", Type: "uint256", Column: "a"},
			{Name: "who", Type: "address", Column: "who",
				Filter: dig.Filter{Op: "contains", Ref: dig.Ref{Integration: "other", Column: "addr"}}}}},
	}}
	main := config.Integration{Name: "main", Enabled: true,
		Sources: []config.Source{{Name: "src"}},
		Table: wpg.Table{Name: "main_t", Columns: []wpg.Column{
			{Name: "f", Type: "bytea"}, {Name: "a", Type: "numeric"}, {Name: "who", Type: "bytea"}, {Name: "txto", Type: "bytea"}},
			Unique: [][]string{{"ig_name", "src_name", "block_num", "tx_idx", "log_idx", "abi_idx"}},
			Index:  [][]string{{"a"}}},
		Notification: dig.Notification{Columns: []string{"a"}},
		Block: []dig.BlockData{{Name: "tx_to", Column: "txto",
			Filter: dig.Filter{Op: "contains", Ref: dig.Ref{Integration: "other", Column: "addr"}}}},
		Event: ev,
	}
	other := config.Integration{Name: "other", Enabled: true, Sources: []config.Source{{Name: "src"}},
		Table: wpg.Table{Name: "other_t", Columns: []wpg.Column{{Name: "addr", Type: "bytea"}}},
		Block: []dig.BlockData{{Name: "tx_signer", Column: "addr"}}}
	// chain text (an ABI string) among the notification columns
	notes := config.Integration{Name: "notes", Enabled: true, Sources: []config.Source{{Name: "src"}},
		Table:        wpg.Table{Name: "notes_t", Columns: []wpg.Column{{Name: "txt", Type: "text"}}},
		Notification: dig.Notification{Columns: []string{"txt"}},
		Event: dig.Event{Name: "Note", Type: "event", Inputs: []dig.Input{{Name: "text", Type: "string", Column: "txt"}}}}
	return config.Root{PGURL: "postgres:///x", Sources: []config.Source{{Name: "src", ChainID: 1, URLs: []string{"http://x"}}},
		Integrations: []config.Integration{other, main, notes}}
}

func clone(c config.Root) config.Root {
	b, _ := json.Marshal(c)
	var out config.Root
	json.Unmarshal(b, &out)
	// fields without JSON names are copied by hand
	for i := range out.Sources {
		out.Sources[i] = c.Sources[i]
		out.Sources[i].URLs = append([]string(nil), c.Sources[i].URLs...)
	}
	return out
}

// string positions of the tree
type pos struct {
	path string
	set  func(root reflect.Value, s string)
}

func walk(v reflect.Value, path string, get func(root reflect.Value) reflect.Value, out *[]pos) {
	switch v.Kind() {
	case reflect.String:
		g := get
		*out = append(*out, pos{path, func(root reflect.Value, s string) {
			f := g(root)
			if f.CanSet() {
				f.SetString(s)
			}
		}})
	case reflect.Struct:
		for i := 0; i < v.NumField(); i++ {
			if !v.Type().Field(i).IsExported() {
				continue
			}
			i := i
			walk(v.Field(i), path+"."+v.Type().Field(i).Name, func(root reflect.Value) reflect.Value { return get(root).Field(i) }, out)
		}
	case reflect.Slice:
		if v.Type().Elem().Kind() == reflect.Uint8 {
			return
		}
		for i := 0; i < v.Len(); i++ {
			i := i
			walk(v.Index(i), fmt.Sprintf("%s[%d]", path, i), func(root reflect.Value) reflect.Value { return get(root).Index(i) }, out)
		}
	}
}

func blocksFor(ev dig.Event) []eth.Block {
	if ev.Name == "Note" {
		// abi.encode(string): offset, length, padded bytes - the text carries the marker and quote characters
		txt := []byte(marker + "'), ('x'); drop table y; --")
		padded := append(append([]byte{}, txt...), make([]byte, (32-len(txt)%32)%32)...)
		data := append(append(sw32(32), sw32(byte(len(txt)))...), padded...)
		b := eth.Block{Header: eth.Header{Number: 10, Hash: sw32(1)}}
		tx := eth.Tx{Idx: 0, PrecompHash: sw32(2), To: make([]byte, 20), From: make([]byte, 20)}
		tx.Logs = []eth.Log{{Idx: 0, Address: make([]byte, 20), Data: data, Topics: []eth.Bytes{ev.SignatureHash()}}}
		b.Txs = []eth.Tx{tx}
		return []eth.Block{b}
	}
	addrw := append(make([]byte, 12), []byte(marker + "zzzzzzzzzzzz")[:20]...)
	data := append(append(append(sw32(32), sw32(1)...), sw32(5)...), addrw...)
	b := eth.Block{Header: eth.Header{Number: 10, Hash: sw32(1)}}
	tx := eth.Tx{Idx: 0, PrecompHash: sw32(2), To: []byte(marker + "'; drop table x; --")[:20], From: make([]byte, 20)}
	tx.Logs = []eth.Log{{Idx: 0, Address: make([]byte, 20), Data: data,
		Topics: []eth.Bytes{ev.SignatureHash(), addrw, addrw}}}
	b.Txs = []eth.Tx{tx}
	return []eth.Block{b}
}

// run everything that issues SQL for an accepted configuration
func exercise(conf config.Root) (sql []string, notes []string) {
	pg := &recPG{}
	ctx := wctx.WithSrcName(wctx.WithChainID(context.Background(), 1), "src")
	func() {
		defer func() {
			if r := recover(); r != nil {
				notes = append(notes, fmt.Sprint("panic: ", r))
			}
		}()
		pg.sql = append(pg.sql, config.DDL(conf)...)
		if err := config.Migrate(ctx, pg, conf); err != nil {
			notes = append(notes, "migrate: "+err.Error())
		}
		for _, ig := range conf.Integrations {
			dg, err := dig.New(ig.Name, ig.Event, ig.Block, ig.Table, ig.Notification, ig.FilterAGG)
			if err != nil {
				notes = append(notes, "dig.New: "+err.Error())
				continue
			}
			ictx := wctx.WithIGName(ctx, ig.Name)
			if _, err := dg.Insert(ictx, &sync.Mutex{}, pg, blocksFor(ig.Event)); err != nil {
				notes = append(notes, "insert: "+err.Error())
			}
			if err := dg.Delete(ictx, pg, 5); err != nil {
				notes = append(notes, "delete: "+err.Error())
			}
		}
	}()
	return pg.sql, notes
}

// the marker counts in any letter case (a spliced value may have been folded)
func hasMarker(q string) bool { return strings.Contains(strings.ToLower(q), strings.ToLower(marker)) }

func TestVerifSQLSafeBounded(t *testing.T) {
	base := baseConf()
	// the base configuration must be acceptable and must exercise the sinks
	{
		c := clone(base)
		if err := config.ValidateFix(&c); err != nil {
			fmt.Printf("BOUNDED-FAIL base configuration rejected: %v\n", err)
			fmt.Printf("BOUNDED cases=1 failures=1 exhaustive=true\n")
			t.FailNow()
		}
		sql, notes := exercise(c)
		kinds := map[string]bool{}
		for _, q := range sql {
			for _, k := range []string{"create table", "create unique index", "create index", "select true from", "pg_notify", "delete from"} {
				if strings.Contains(q, k) {
					kinds[k] = true
				}
			}
		}
		if len(kinds) < 6 {
			fmt.Printf("BOUNDED-FAIL base configuration does not reach every kind of SQL text: %v notes=%v\n", kinds, notes)
			fmt.Printf("BOUNDED cases=1 failures=1 exhaustive=true\n")
			t.FailNow()
		}
		for _, q := range sql {
			if hasMarker(q) {
				fmt.Printf("BOUNDED-FAIL chain data reached SQL text: %s\n", q)
				fmt.Printf("BOUNDED cases=1 failures=1 exhaustive=true\n")
				t.FailNow()
			}
		}
	}
	var positions []pos
	rv := reflect.ValueOf(&base).Elem()
	walk(rv, "conf", func(root reflect.Value) reflect.Value { return root }, &positions)
	cases, fails := 0, 0
	for _, p := range positions {
		for _, h := range hostile {
			for _, path := range []string{"file", "dashboard"} {
				c := clone(base)
				p.set(reflect.ValueOf(&c).Elem(), h)
				var accepted bool
				if path == "file" {
					accepted = config.ValidateFix(&c) == nil
				} else {
					// the dashboard validates the submitted integration alone and stores it;
					// on restart it is used as stored
					accepted = true
					for _, ig := range c.Integrations {
						if config.CheckUserInput(config.Root{Integrations: []config.Integration{ig}}) != nil {
							accepted = false
						}
					}
					if accepted {
						for i := range c.Integrations {
							c.Integrations[i].AddRequiredFields()
							config.AddUniqueIndex(&c.Integrations[i].Table)
						}
					}
				}
				cases++
				if !accepted {
					continue
				}
				sql, _ := exercise(c)
				for _, q := range sql {
					if hasMarker(q) {
						fails++
						if fails <= 12 {
							fmt.Printf("BOUNDED-FAIL %s = %q accepted by the %s path and reached SQL text: %s\n", p.path, h, path, q)
						}
						break
					}
				}
			}
		}
	}
	// a source name is spliced into "set application_name" and the notification
	// channel by the tasks of every integration that runs on the source,
	// including integrations stored in the database: the file path must reject a
	// hostile source name whether or not the file itself declares integrations
	for _, h := range hostile {
		for _, withIGs := range []bool{false, true} {
			c := config.Root{}
			if withIGs {
				c = clone(base)
			}
			c.Sources = append(c.Sources, config.Source{Name: h, ChainID: 1, URLs: []string{"http://127.0.0.1:1"}})
			cases++
			if err := config.ValidateFix(&c); err == nil {
				fails++
				if fails <= 12 {
					fmt.Printf("BOUNDED-FAIL a file (integrations declared: %v) with the source name %q is accepted; the name reaches set application_name / pg_notify text of every task on that source\n", withIGs, h)
				}
			}
		}
	}
	fmt.Printf("BOUNDED cases=%d failures=%d exhaustive=true\n", cases, fails)
	if fails > 0 {
		t.Fail()
	}
}
