package config_test

// Bounded stand-in (labelled bounded): the documented configuration keys
// (shovel-config-ts/src/index.ts, docs) reach the fields the rest of the
// program reads. A configuration text is decoded the way cmd/shovel does
// (encoding/json into config.Root) and the way config.Integrations does for
// database rows (one json.Unmarshal per row), and every value must arrive
// under its own key: dashboard switches in every combination, source
// settings, and the (start, stop) of source references for every ordering of
// the two incl. stop == start, stop < start and absent, as numbers, quoted
// numbers and $ENV references.

import (
	"encoding/json"
	"fmt"
	"os"
	"testing"
	"time"

	"github.com/indexsupply/shovel/shovel/config"
)

func TestVerifConfDecBounded(t *testing.T) {
	cases, fails := 0, 0
	fail := func(format string, a ...any) {
		fails++
		if fails <= 10 {
			fmt.Printf("BOUNDED-FAIL "+format+"\n", a...)
		}
	}
	// dashboard switches
	for _, la := range []string{"", "true", "false"} {
		for _, da := range []string{"", "true", "false"} {
			for _, pw := range []string{"", "s3cret", "correct$horseQZX", "pa$$word", "Tr0ub4dor$3xyz", "a${b}c"} {
				cases++
				txt := `{"pg_url":"postgres:///x","dashboard":{`
				sep := ""
				if la != "" {
					txt += sep + `"enable_loopback_authn":` + la
					sep = ","
				}
				if da != "" {
					txt += sep + `"disable_authn":` + da
					sep = ","
				}
				if pw != "" {
					txt += sep + `"root_password":"` + pw + `"`
				}
				txt += `}}`
				var conf config.Root
				if err := json.Unmarshal([]byte(txt), &conf); err != nil {
					fail("dashboard %s: %v", txt, err)
					continue
				}
				if conf.Dashboard.EnableLoopbackAuthn != (la == "true") || conf.Dashboard.DisableAuthn != (da == "true") || string(conf.Dashboard.RootPassword) != pw || conf.PGURL != "postgres:///x" {
					fail("dashboard %s decoded as %+v pg_url=%q", txt, conf.Dashboard, conf.PGURL)
				}
			}
		}
	}
	// sources and source references
	os.Setenv("VERIF_START", "41")
	os.Setenv("VERIF_STOP", "41")
	type num struct {
		text string
		val  uint64
		set  bool
	}
	starts := []num{{"", 0, false}, {"0", 0, true}, {"100", 100, true}, {`"100"`, 100, true}, {`"$VERIF_START"`, 41, true}}
	stops := []num{{"", 0, false}, {"0", 0, true}, {"50", 50, true}, {"100", 100, true}, {"101", 101, true}, {`"100"`, 100, true}, {`"$VERIF_STOP"`, 41, true}, {"18446744073709551615", 1<<64 - 1, true}}
	for _, st := range starts {
		for _, sp := range stops {
			ref := `{"name":"main"`
			if st.set {
				ref += `,"start":` + st.text
			}
			if sp.set {
				ref += `,"stop":` + sp.text
			}
			ref += `}`
			txt := `{"eth_sources":[{"name":"main","chain_id":7,"url":"http://a","urls":["http://b","http://c"],"ws_url":"ws://w","poll_duration":"3s","concurrency":4,"batch_size":12}],
"integrations":[{"name":"i1","enabled":true,"sources":[` + ref + `],"table":{"name":"t","columns":[]}},{"name":"i2","enabled":false,"sources":[{"name":"main","start":7,"stop":9}],"table":{"name":"t2","columns":[]}}]}`
			cases++
			var conf config.Root
			if err := json.Unmarshal([]byte(txt), &conf); err != nil {
				fail("reference %s: %v", ref, err)
				continue
			}
			if len(conf.Sources) != 1 || len(conf.Integrations) != 2 || len(conf.Integrations[0].Sources) != 1 {
				fail("reference %s: shape %+v", ref, conf)
				continue
			}
			s := conf.Sources[0]
			if s.Name != "main" || s.ChainID != 7 || len(s.URLs) != 3 || s.URLs[0] != "http://a" || s.URLs[2] != "http://c" || s.WSURL != "ws://w" || s.PollDuration != 3*time.Second || s.Concurrency != 4 || s.BatchSize != 12 {
				fail("source decoded as %+v", s)
			}
			r := conf.Integrations[0].Sources[0]
			if r.Name != "main" || r.Start != st.val || r.Stop != sp.val {
				fail("reference %s decoded as name=%q start=%d stop=%d", ref, r.Name, r.Start, r.Stop)
			}
			if !conf.Integrations[0].Enabled || conf.Integrations[1].Enabled || conf.Integrations[1].Sources[0].Start != 7 || conf.Integrations[1].Sources[0].Stop != 9 {
				fail("reference %s: integrations decoded as %+v", ref, conf.Integrations)
			}
			// the database path: one document per row, decoded one after the other
			var ig config.Integration
			row := `{"name":"i1","enabled":true,"sources":[` + ref + `],"table":{"name":"t","columns":[]}}`
			if err := json.Unmarshal([]byte(row), &ig); err != nil {
				fail("row %s: %v", row, err)
				continue
			}
			if len(ig.Sources) != 1 || ig.Sources[0].Start != st.val || ig.Sources[0].Stop != sp.val {
				fail("row %s decoded as %+v", row, ig.Sources)
			}
		}
	}
	// a source that sets only one of batch size and concurrency
	for _, c := range []struct {
		txt         string
		batch, conc int
	}{{`"batch_size":13`, 13, 0}, {`"concurrency":5`, 0, 5}, {`"concurrency":0,"batch_size":13`, 13, 0}, {`"concurrency":"6","batch_size":"14"`, 14, 6}} {
		cases++
		var s config.Source
		if err := json.Unmarshal([]byte(`{"name":"x","chain_id":1,"url":"http://a",`+c.txt+`}`), &s); err != nil {
			fail("source %s: %v", c.txt, err)
			continue
		}
		if s.BatchSize != c.batch || s.Concurrency != c.conc {
			fail("source %s decoded as batch=%d concurrency=%d", c.txt, s.BatchSize, s.Concurrency)
		}
	}
	fmt.Printf("BOUNDED cases=%d failures=%d exhaustive=true\n", cases, fails)
	if fails > 0 {
		t.Fail()
	}
}
