package glf

// Bounded stand-in for the trusted contract of difference (and a cross-check
// of any): exhaustive over all slices of length <= 3 over a 3-letter alphabet.

import (
	"fmt"
	"testing"
)

func allSlices(alpha []string, maxLen int) [][]string {
	out := [][]string{nil}
	var rec func(cur []string)
	rec = func(cur []string) {
		if len(cur) > 0 {
			out = append(out, append([]string(nil), cur...))
		}
		if len(cur) == maxLen {
			return
		}
		for _, a := range alpha {
			rec(append(cur, a))
		}
	}
	rec(nil)
	return out
}

func mem(s []string, x string) bool {
	for _, y := range s {
		if y == x {
			return true
		}
	}
	return false
}

func TestVerifGLFBounded(t *testing.T) {
	alpha := []string{"a", "b", "c"}
	sl := allSlices(alpha, 3)
	cases, fails := 0, 0
	for _, ours := range sl {
		for _, o1 := range sl {
			// any
			cases++
			want := false
			for _, x := range alpha {
				if mem(ours, x) && mem(o1, x) {
					want = true
				}
			}
			if any(ours, o1) != want {
				fails++
				fmt.Printf("BOUNDED-FAIL any(%v,%v)\n", ours, o1)
			}
			for _, o2 := range sl[:14] {
				cases++
				got := difference(ours, o1, o2)
				for _, x := range append(alpha, "z") {
					w := mem(ours, x) && !mem(o1, x) && !mem(o2, x)
					if mem(got, x) != w {
						fails++
						if fails < 10 {
							fmt.Printf("BOUNDED-FAIL difference(%v,%v,%v)=%v at %s\n", ours, o1, o2, got, x)
						}
					}
				}
			}
		}
	}
	fmt.Printf("BOUNDED cases=%d failures=%d exhaustive=true\n", cases, fails)
	if fails > 0 {
		t.Fail()
	}
}
