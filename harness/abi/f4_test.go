package dig

import (
	"bytes"
	"context"
	"sync"
	"testing"

	"github.com/indexsupply/shovel/eth"
	"github.com/indexsupply/shovel/wpg"
)

// F4 (C11): Transfer(address indexed from, address indexed to, uint256 value)
// selecting only `to`: the column must receive topic 2, whether or not `from`
// is selected.
func TestVerifF4IndexedTopic(t *testing.T) {
	ev := Event{Name: "Transfer", Inputs: []Input{
		{Indexed: true, Name: "from", Type: "address"},
		{Indexed: true, Name: "to", Type: "address", Column: "to_addr"},
		{Name: "value", Type: "uint256"},
	}}
	tbl := wpg.Table{Name: "t", Columns: []wpg.Column{{Name: "to_addr", Type: "bytea"}}}
	ig, err := New("ig", ev, nil, tbl, Notification{}, "")
	if err != nil {
		t.Fatal(err)
	}
	from, to := bytes.Repeat([]byte{0xaa}, 32), bytes.Repeat([]byte{0xbb}, 32)
	l := eth.Log{Topics: []eth.Bytes{ig.sighash, from, to}, Data: make([]byte, 32)}
	lwc := &logWithCtx{ctx: context.Background(), b: &eth.Block{}, t: &eth.Tx{}, l: &l}
	rows, err := ig.processLog(nil, lwc, &sync.Mutex{}, nil)
	if err != nil || len(rows) != 1 {
		t.Fatalf("rows=%d err=%v", len(rows), err)
	}
	got := rows[0][0].([]byte)
	if !bytes.Equal(got, to[12:]) {
		t.Fatalf("column to_addr holds %x, want the `to` topic %x (from is %x)", got, to[12:], from[12:])
	}
}
