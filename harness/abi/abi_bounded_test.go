package dig

// Bounded stand-in for C09 (labelled bounded, never counted as proved): the
// real Event.ABIType + Result.Scan against an independent specification of
// the Solidity ABI encoding and of the row rule, exhaustively over a stated
// family of type trees, selections and values. Injected with go test -overlay.

import (
	"bytes"
	"encoding/binary"
	"fmt"
	"os"
	"strings"
	"testing"
)

type sty struct {
	kind   byte // 'u' uint256, 'b' bytes, 'a' array, 't' tuple
	k      int  // array length, 0 = dynamic
	elem   *sty
	fields []sty
	sel    bool // leaf selected (for arrays: the leaf below)
}

func (t sty) dynamic() bool {
	switch t.kind {
	case 'b':
		return true
	case 'a':
		return t.k == 0 || t.elem.dynamic()
	case 't':
		for _, f := range t.fields {
			if f.dynamic() {
				return true
			}
		}
	}
	return false
}

// Solidity type string and components for an Input
func (t sty) typeString() string {
	switch t.kind {
	case 'u':
		return "uint256"
	case 'b':
		return "bytes"
	case 't':
		return "tuple"
	case 'a':
		if t.k == 0 {
			return t.elem.typeString() + "[]"
		}
		return fmt.Sprintf("%s[%d]", t.elem.typeString(), t.k)
	}
	panic("ts")
}

func (t sty) base() sty {
	for t.kind == 'a' {
		t = *t.elem
	}
	return t
}

var colCounter int

func (t sty) input(name string) Input {
	inp := Input{Name: name, Type: t.typeString()}
	b := t.base()
	switch b.kind {
	case 't':
		for i, f := range b.fields {
			inp.Components = append(inp.Components, f.input(fmt.Sprintf("%s_%d", name, i)))
		}
	default:
		if b.sel {
			colCounter++
			inp.Column = fmt.Sprintf("c%d", colCounter)
		}
	}
	return inp
}

// values
type sval struct {
	word  []byte // 'u'
	data  []byte // 'b'
	elems []sval // 'a'
	flds  []sval // 't'
}

func word(n uint64) []byte {
	w := make([]byte, 32)
	binary.BigEndian.PutUint64(w[24:], n)
	return w
}

var valSeed uint64

func mkval(t sty, variant int) sval {
	valSeed++
	switch t.kind {
	case 'u':
		w := word(valSeed*7919 + 1)
		w[0] = byte(valSeed)
		return sval{word: w}
	case 'b':
		n := []int{0, 1, 33, 32}[(variant+int(valSeed))%4]
		d := make([]byte, n)
		for i := range d {
			d[i] = byte(valSeed + uint64(i))
		}
		return sval{data: d}
	case 'a':
		n := t.k
		if n == 0 {
			n = []int{2, 0, 1, 4}[variant%4]
		}
		v := sval{}
		for i := 0; i < n; i++ {
			v.elems = append(v.elems, mkval(*t.elem, variant+i))
		}
		return v
	case 't':
		v := sval{}
		for _, f := range t.fields {
			v.flds = append(v.flds, mkval(f, variant))
		}
		return v
	}
	panic("mkval")
}

// specification encoder (Solidity ABI)
func encTuple(ts []sty, vs []sval) []byte {
	headLen := 0
	for _, t := range ts {
		if t.dynamic() {
			headLen += 32
		} else {
			headLen += len(enc(t, sval{}, true))
		}
	}
	var head, tail []byte
	for i, t := range ts {
		if t.dynamic() {
			head = append(head, word(uint64(headLen+len(tail)))...)
			tail = append(tail, enc(t, vs[i], false)...)
		} else {
			head = append(head, enc(t, vs[i], false)...)
		}
	}
	return append(head, tail...)
}

// sizeOnly: only the length of a static encoding is wanted
func enc(t sty, v sval, sizeOnly bool) []byte {
	switch t.kind {
	case 'u':
		if sizeOnly {
			return make([]byte, 32)
		}
		return v.word
	case 'b':
		out := word(uint64(len(v.data)))
		out = append(out, v.data...)
		for len(out)%32 != 0 {
			out = append(out, 0)
		}
		return out
	case 't':
		if sizeOnly {
			vs := make([]sval, len(t.fields))
			n := 0
			for i, f := range t.fields {
				n += len(enc(f, vs[i], true))
			}
			return make([]byte, n)
		}
		return encTuple(t.fields, v.flds)
	case 'a':
		if sizeOnly {
			return make([]byte, t.k*len(enc(*t.elem, sval{}, true)))
		}
		ts := make([]sty, len(v.elems))
		for i := range ts {
			ts[i] = *t.elem
		}
		body := encTuple(ts, v.elems)
		if t.k == 0 {
			return append(word(uint64(len(v.elems))), body...)
		}
		return body
	}
	panic("enc")
}

// specification of the row rule
type leafpos struct{ pos int }

func hasArr(t sty) bool {
	switch t.kind {
	case 'a':
		return true
	case 't':
		for _, f := range t.fields {
			if hasArr(f) {
				return true
			}
		}
	}
	return false
}

func anySel(t sty) bool {
	switch t.kind {
	case 'a':
		return anySel(*t.elem)
	case 't':
		for _, f := range t.fields {
			if anySel(f) {
				return true
			}
		}
		return false
	}
	return t.sel
}

type specOut struct {
	ncols   int
	scalars map[int][]byte
	rows    []map[int][]byte
}

func cell(v sval, t sty) []byte {
	if t.kind == 'u' {
		return v.word
	}
	return v.data
}

// walk assigns positions in declaration order and collects expected cells
func (o *specOut) walk(t sty, v sval, pos *int, row map[int][]byte, underArr bool, live bool) {
	switch t.kind {
	case 'u', 'b':
		if t.sel {
			p := *pos
			*pos++
			if live {
				c := cell(v, t)
				if len(c) > 0 {
					if underArr {
						row[p] = c
					} else {
						o.scalars[p] = c
					}
				}
			}
		}
	case 't':
		for i, f := range t.fields {
			var fv sval
			if live {
				fv = v.flds[i]
			}
			o.walk(f, fv, pos, row, underArr, live)
		}
	case 'a':
		start := *pos
		if !live || len(v.elems) == 0 || !anySel(t) {
			// positions are still consumed by the selected leaves below
			o.walk(*t.elem, sval{}, pos, nil, true, false)
			return
		}
		end := start
		for _, ev := range v.elems {
			p := start
			if hasArr(*t.elem) {
				o.walk(*t.elem, ev, &p, row, true, true)
			} else {
				r := map[int][]byte{}
				o.walk(*t.elem, ev, &p, r, true, true)
				o.rows = append(o.rows, r)
			}
			end = p
		}
		*pos = end
	}
}

func specDecode(ts []sty, vs []sval) specOut {
	o := specOut{scalars: map[int][]byte{}}
	pos := 0
	for i, t := range ts {
		o.walk(t, vs[i], &pos, nil, false, true)
	}
	o.ncols = pos
	if len(o.rows) == 0 {
		o.rows = []map[int][]byte{{}}
	}
	for _, r := range o.rows {
		for p, c := range o.scalars {
			r[p] = c
		}
	}
	return o
}

// the family of field shapes
func shapes() []sty {
	u := sty{kind: 'u', sel: true}
	un := sty{kind: 'u'}
	b := sty{kind: 'b', sel: true}
	bn := sty{kind: 'b'}
	arr := func(e sty, k int) sty { return sty{kind: 'a', k: k, elem: &e} }
	tup := func(fs ...sty) sty { return sty{kind: 't', fields: fs} }
	return []sty{
		u, un, b, bn,
		arr(u, 0), arr(u, 2), arr(u, 12), arr(un, 0), arr(un, 3),
		arr(b, 0), arr(b, 2), arr(bn, 0),
		tup(u, b), tup(un, b), tup(u, bn), tup(bn, un),
		arr(tup(u, b), 0), arr(tup(un, b), 2), arr(tup(u, un), 0), arr(tup(bn, u), 0),
		arr(arr(u, 0), 0), arr(arr(u, 2), 0), arr(arr(u, 0), 2), arr(arr(b, 0), 0), arr(arr(un, 0), 2),
		tup(u, arr(u, 0)), tup(arr(b, 0), un), tup(tup(u, b), bn),
	}
}

func TestVerifABIBounded(t *testing.T) {
	depth3 := os.Getenv("VERIF_TIER") == "thorough"
	sh := shapes()
	var combos [][]sty
	for _, a := range sh {
		combos = append(combos, []sty{a})
		for _, b := range sh {
			combos = append(combos, []sty{a, b})
		}
	}
	if depth3 {
		for i, a := range sh {
			for j, b := range sh {
				for k, c := range sh {
					if (i+2*j+3*k)%5 == 0 {
						combos = append(combos, []sty{a, b, c})
					}
				}
			}
		}
	}
	cases, fails := 0, 0
	for _, ts := range combos {
		// the row rule needs at least one selected leaf; skip declarations selecting nothing
		sel := false
		for _, x := range ts {
			sel = sel || anySel(x)
		}
		if !sel {
			continue
		}
		colCounter = 0
		ev := Event{Name: "E"}
		for i, x := range ts {
			ev.Inputs = append(ev.Inputs, x.input(fmt.Sprintf("f%d", i)))
		}
		res := NewResult(ev.ABIType())
		for variant := 0; variant < 4; variant++ {
			vs := make([]sval, len(ts))
			for i, x := range ts {
				vs[i] = mkval(x, variant)
			}
			data := encTuple(ts, vs)
			want := specDecode(ts, vs)
			// exact capacity: an over-read would panic
			in := append(make([]byte, 0, len(data)), data...)
			for round := 0; round < 2; round++ { // reuse of one decoder instance
				cases++
				desc := func() string {
					var n []string
					for _, x := range ts {
						n = append(n, x.typeString())
					}
					return fmt.Sprintf("(%s) variant=%d round=%d", strings.Join(n, ","), variant, round)
				}
				var err error
				func() {
					defer func() {
						if r := recover(); r != nil {
							err = fmt.Errorf("panic: %v", r)
						}
					}()
					err = res.Scan(in)
				}()
				if err != nil {
					fails++
					if fails <= 10 {
						fmt.Printf("BOUNDED-FAIL %s: Scan error %v\n", desc(), err)
					}
					continue
				}
				if res.ncols != want.ncols || res.Len() != len(want.rows) {
					fails++
					if fails <= 10 {
						fmt.Printf("BOUNDED-FAIL %s: got %d rows x %d cols, want %d x %d\n", desc(), res.Len(), res.ncols, len(want.rows), want.ncols)
					}
					continue
				}
				bad := false
				for i := 0; i < res.Len() && !bad; i++ {
					for j := 0; j < res.ncols; j++ {
						if !bytes.Equal(res.At(i)[j], want.rows[i][j]) {
							bad = true
							fails++
							if fails <= 10 {
								fmt.Printf("BOUNDED-FAIL %s: row %d col %d: got %x want %x\n", desc(), i, j, res.At(i)[j], want.rows[i][j])
							}
							break
						}
					}
				}
			}
		}
	}
	fmt.Printf("BOUNDED cases=%d failures=%d exhaustive=true\n", cases, fails)
	if fails > 0 {
		t.Fail()
	}
}
