package dig

// Bounded stand-in for C13 (labelled bounded): Event.Signature against an
// independent canonicalisation for tuple/array nestings of depth <= 3, and
// SignatureHash against known Keccak-256 values; and the acceptance gate of
// processLog (first topic = hash of the canonical signature, one further
// topic per indexed input of any type) for events with 0..3 indexed inputs.

import (
	"bytes"
	"context"
	"encoding/hex"
	"fmt"
	"strings"
	"sync"
	"testing"

	"github.com/indexsupply/shovel/eth"
	"github.com/indexsupply/shovel/wpg"
	"golang.org/x/crypto/sha3"
)

// keccak is computed here, not taken from the code under check
func keccak(s string) []byte {
	h := sha3.NewLegacyKeccak256()
	h.Write([]byte(s))
	return h.Sum(nil)
}

type gty struct {
	base   string // elementary type, or "" for tuple
	comps  []gty
	suffix string // array suffix, e.g. "[]", "[2][]"
}

func (g gty) canon() string {
	if g.base != "" {
		return g.base + g.suffix
	}
	var parts []string
	for _, c := range g.comps {
		parts = append(parts, c.canon())
	}
	return "(" + strings.Join(parts, ",") + ")" + g.suffix
}

func (g gty) input() Input {
	if g.base != "" {
		return Input{Name: "x", Type: g.base + g.suffix}
	}
	in := Input{Name: "t", Type: "tuple" + g.suffix}
	for _, c := range g.comps {
		in.Components = append(in.Components, c.input())
	}
	return in
}

func TestVerifSigBounded(t *testing.T) {
	suffixes := []string{"", "[]", "[2]", "[][]", "[2][]", "[][4]", "[3][2][]"}
	elems := []string{"uint256", "address", "bytes", "string", "bytes32", "int8", "bool"}
	var leaves []gty
	for _, e := range elems[:4] {
		for _, s := range suffixes[:4] {
			leaves = append(leaves, gty{base: e, suffix: s})
		}
	}
	var tuples1 []gty
	for i, a := range leaves {
		for _, s := range suffixes {
			tuples1 = append(tuples1, gty{comps: []gty{a, leaves[(i*7+3)%len(leaves)]}, suffix: s})
		}
	}
	var tuples2 []gty
	for i, tp := range tuples1 {
		if i%5 == 0 {
			for _, s := range suffixes {
				tuples2 = append(tuples2, gty{comps: []gty{leaves[i%len(leaves)], tp}, suffix: s})
			}
		}
	}
	all := append(append(append([]gty{}, leaves...), tuples1...), tuples2...)
	cases, fails := 0, 0
	for i, a := range all {
		for _, b := range []gty{all[(i*13+5)%len(all)], {base: elems[i%len(elems)]}} {
			cases++
			ev := Event{Name: "Ev", Inputs: []Input{a.input(), b.input()}}
			want := "Ev(" + a.canon() + "," + b.canon() + ")"
			if got := ev.Signature(); got != want {
				fails++
				if fails <= 10 {
					fmt.Printf("BOUNDED-FAIL signature: got %s want %s\n", got, want)
				}
			}
		}
	}
	known := map[string]string{
		"Transfer(address,address,uint256)": "ddf252ad1be2c89b69c2b068fc378daa952ba7f163c4a11628f55a4df523b3ef",
		"Approval(address,address,uint256)": "8c5be1e5ebec7d5bd14f71427d1e84f3dd0314c0f7b2291e5b200ac8c7c3b925",
	}
	for sig, h := range known {
		cases++
		name, rest, _ := strings.Cut(sig, "(")
		var ins []Input
		for _, ty := range strings.Split(strings.TrimSuffix(rest, ")"), ",") {
			ins = append(ins, Input{Type: ty})
		}
		ev := Event{Name: name, Inputs: ins}
		if got := hex.EncodeToString(ev.SignatureHash()); got != h {
			fails++
			fmt.Printf("BOUNDED-FAIL hash of %s: got %s want %s\n", sig, got, h)
		}
	}
	// the gate: an integration built by the real dig.New accepts a log iff its
	// first topic is the hash of the declared signature and it has one further
	// topic per input declared indexed (whatever the input's type)
	idxTypes := []Input{
		{Name: "i", Type: "address", Indexed: true},
		{Name: "i", Type: "uint256[]", Indexed: true},
		{Name: "i", Type: "string", Indexed: true},
		{Name: "i", Type: "tuple", Indexed: true, Components: []Input{{Name: "p", Type: "address"}, {Name: "q", Type: "uint256"}}},
		{Name: "i", Type: "tuple[]", Indexed: true, Components: []Input{{Name: "p", Type: "address"}, {Name: "q", Type: "uint256"}}},
	}
	val := Input{Name: "v", Type: "uint256", Column: "v"}
	var shapes [][]Input
	shapes = append(shapes, []Input{val})
	for _, a := range idxTypes {
		shapes = append(shapes, []Input{a, val}, []Input{val, a})
		for _, b := range idxTypes {
			shapes = append(shapes, []Input{a, val, b})
			shapes = append(shapes, []Input{a, b, {Name: "i", Type: "bytes32", Indexed: true}, val})
		}
	}
	// all integrations are built first and exercised afterwards, as the task
	// loader does: what one construction returns must not be changed by the next
	type built struct {
		ev   Event
		ig   Integration
		nidx int
	}
	var igs []built
	for si, ins := range shapes {
		ev := Event{Name: fmt.Sprintf("G%d", si%3), Type: "event", Inputs: ins}
		nidx := 0
		for _, in := range ins {
			if in.Indexed {
				nidx++
			}
		}
		ig, err := New("ig", ev, nil, wpg.Table{Name: "t", Columns: []wpg.Column{{Name: "v", Type: "numeric"}}}, Notification{}, "")
		if err != nil {
			cases++
			fails++
			fmt.Printf("BOUNDED-FAIL gate shape %d: New: %v\n", si, err)
			continue
		}
		igs = append(igs, built{ev, ig, nidx})
	}
	for _, b := range igs {
		ev, ig, nidx := b.ev, b.ig, b.nidx
		good := keccak(ev.Signature())
		bad := keccak("G(uint256)x")
		for nt := 1; nt <= 5; nt++ {
			for _, h := range [][]byte{good, bad} {
				cases++
				l := eth.Log{Data: make([]byte, 32)}
				l.Data[31] = 42
				l.Topics = append(l.Topics, h)
				for k := 1; k < nt; k++ {
					l.Topics = append(l.Topics, bytes.Repeat([]byte{byte(k)}, 32))
				}
				lwc := &logWithCtx{ctx: context.Background(), b: &eth.Block{}, t: &eth.Tx{}, l: &l}
				rows, err := ig.processLog(nil, lwc, &sync.Mutex{}, nil)
				wantRows := 0
				if nt-1 == nidx && bytes.Equal(h, good) {
					wantRows = 1
				}
				if err != nil || len(rows) != wantRows {
					fails++
					if fails <= 10 {
						fmt.Printf("BOUNDED-FAIL gate: %s with %d indexed inputs, log with %d topics, declared hash=%v: %d rows (err=%v), want %d\n", ev.Signature(), nidx, nt, bytes.Equal(h, good), len(rows), err, wantRows)
					}
				}
			}
		}
	}
	fmt.Printf("BOUNDED cases=%d failures=%d exhaustive=true\n", cases, fails)
	if fails > 0 {
		t.Fail()
	}
}
