package dig

// Bounded stand-in for C13 (labelled bounded): Event.Signature against an
// independent canonicalisation for tuple/array nestings of depth <= 3, and
// SignatureHash against known Keccak-256 values.

import (
	"encoding/hex"
	"fmt"
	"strings"
	"testing"
)

type gty struct {
	base   string // elementary type, or "" for tuple
	comps  []gty
	suffix string // array suffix, e.g. "[]", "[2][]"
}

func (g gty) canon() string {
	if g.base != "" {
		return g.base + g.suffix
	}
	var parts []string
	for _, c := range g.comps {
		parts = append(parts, c.canon())
	}
	return "(" + strings.Join(parts, ",") + ")" + g.suffix
}

func (g gty) input() Input {
	if g.base != "" {
		return Input{Name: "x", Type: g.base + g.suffix}
	}
	in := Input{Name: "t", Type: "tuple" + g.suffix}
	for _, c := range g.comps {
		in.Components = append(in.Components, c.input())
	}
	return in
}

func TestVerifSigBounded(t *testing.T) {
	suffixes := []string{"", "[]", "[2]", "[][]", "[2][]", "[][4]", "[3][2][]"}
	elems := []string{"uint256", "address", "bytes", "string", "bytes32", "int8", "bool"}
	var leaves []gty
	for _, e := range elems[:4] {
		for _, s := range suffixes[:4] {
			leaves = append(leaves, gty{base: e, suffix: s})
		}
	}
	var tuples1 []gty
	for i, a := range leaves {
		for _, s := range suffixes {
			tuples1 = append(tuples1, gty{comps: []gty{a, leaves[(i*7+3)%len(leaves)]}, suffix: s})
		}
	}
	var tuples2 []gty
	for i, tp := range tuples1 {
		if i%5 == 0 {
			for _, s := range suffixes {
				tuples2 = append(tuples2, gty{comps: []gty{leaves[i%len(leaves)], tp}, suffix: s})
			}
		}
	}
	all := append(append(append([]gty{}, leaves...), tuples1...), tuples2...)
	cases, fails := 0, 0
	for i, a := range all {
		for _, b := range []gty{all[(i*13+5)%len(all)], {base: elems[i%len(elems)]}} {
			cases++
			ev := Event{Name: "Ev", Inputs: []Input{a.input(), b.input()}}
			want := "Ev(" + a.canon() + "," + b.canon() + ")"
			if got := ev.Signature(); got != want {
				fails++
				if fails <= 10 {
					fmt.Printf("BOUNDED-FAIL signature: got %s want %s\n", got, want)
				}
			}
		}
	}
	known := map[string]string{
		"Transfer(address,address,uint256)": "ddf252ad1be2c89b69c2b068fc378daa952ba7f163c4a11628f55a4df523b3ef",
		"Approval(address,address,uint256)": "8c5be1e5ebec7d5bd14f71427d1e84f3dd0314c0f7b2291e5b200ac8c7c3b925",
	}
	for sig, h := range known {
		cases++
		name, rest, _ := strings.Cut(sig, "(")
		var ins []Input
		for _, ty := range strings.Split(strings.TrimSuffix(rest, ")"), ",") {
			ins = append(ins, Input{Type: ty})
		}
		ev := Event{Name: name, Inputs: ins}
		if got := hex.EncodeToString(ev.SignatureHash()); got != h {
			fails++
			fmt.Printf("BOUNDED-FAIL hash of %s: got %s want %s\n", sig, got, h)
		}
	}
	fmt.Printf("BOUNDED cases=%d failures=%d exhaustive=true\n", cases, fails)
	if fails > 0 {
		t.Fail()
	}
}
