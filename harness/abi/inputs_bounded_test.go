package dig

// Bounded stand-in for C11 (labelled bounded): which value each event-input
// column receives. For a five-input event (three indexed inputs and two data
// inputs of different types) in three declaration orders and every non-empty
// subset of selected inputs, the real dig.New (setCols) + processLog run on a
// log whose topics and data words all differ; every selected column must hold
// the value of the input it was declared for (the k-th indexed input is topic
// k whatever else is selected; a data input is its own word). A second family
// puts a never-selected data input whose head is not a single value word
// (static array, static tuple, string, dynamic array) in front of, between
// and behind the selected data inputs.

import (
	"bytes"
	"context"
	"fmt"
	"sync"
	"testing"

	"github.com/holiman/uint256"
	"github.com/indexsupply/shovel/eth"
	"github.com/indexsupply/shovel/wpg"
)

func wordOf(tag byte) []byte {
	w := bytes.Repeat([]byte{tag}, 32)
	w[31] = tag + 1
	return w
}

func TestVerifInputsBounded(t *testing.T) {
	type inp struct {
		name    string
		typ     string
		indexed bool
	}
	orders := [][]inp{
		{{"a", "address", true}, {"b", "uint256", true}, {"c", "bytes32", true}, {"x", "uint256", false}, {"y", "address", false}},
		{{"x", "uint256", false}, {"a", "address", true}, {"y", "address", false}, {"b", "uint256", true}, {"c", "bytes32", true}},
		{{"c", "bytes32", true}, {"y", "address", false}, {"b", "uint256", true}, {"x", "uint256", false}, {"a", "address", true}},
	}
	cases, fails := 0, 0
	for oi, order := range orders {
		for mask := 1; mask < 32; mask++ {
			ev := Event{Name: "E", Type: "event"}
			tbl := wpg.Table{Name: "t"}
			for k, in := range order {
				i := Input{Name: in.name, Type: in.typ, Indexed: in.indexed}
				if mask&(1<<k) != 0 {
					i.Column = "c_" + in.name
					tbl.Columns = append(tbl.Columns, wpg.Column{Name: i.Column, Type: "bytea"})
				}
				ev.Inputs = append(ev.Inputs, i)
			}
			cases++
			ig, err := New("ig", ev, nil, tbl, Notification{}, "")
			if err != nil {
				fails++
				fmt.Printf("BOUNDED-FAIL order %d mask %05b: New: %v\n", oi, mask, err)
				continue
			}
			// the log: topic k for the k-th indexed input, data word j for the j-th data input
			want := map[string][]byte{}
			l := eth.Log{Topics: []eth.Bytes{ig.sighash}}
			nt, nd := 0, 0
			for _, in := range order {
				if in.indexed {
					nt++
					w := wordOf(byte(0x10 * nt))
					l.Topics = append(l.Topics, w)
					want[in.name] = w
				} else {
					nd++
					w := wordOf(byte(0x80 + 0x10*nd))
					l.Data = append(l.Data, w...)
					want[in.name] = w
				}
			}
			lwc := &logWithCtx{ctx: context.Background(), b: &eth.Block{}, t: &eth.Tx{}, l: &l}
			rows, err := ig.processLog(nil, lwc, &sync.Mutex{}, nil)
			if err != nil || len(rows) != 1 {
				fails++
				fmt.Printf("BOUNDED-FAIL order %d mask %05b: rows=%d err=%v\n", oi, mask, len(rows), err)
				continue
			}
			for ci, col := range ig.Columns {
				var src inp
				for _, in := range order {
					if "c_"+in.name == col {
						src = in
					}
				}
				if src.name == "" {
					continue
				}
				w := want[src.name]
				ok := false
				switch v := rows[0][ci].(type) {
				case []byte:
					if src.typ == "address" {
						ok = bytes.Equal(v, w[12:])
					} else {
						ok = bytes.Equal(v, w)
					}
				case eth.Bytes:
					ok = bytes.Equal(v, w) || bytes.Equal(v, w[12:])
				case *uint256.Int:
					var x uint256.Int
					x.SetBytes(w)
					ok = v.Eq(&x)
				}
				if !ok {
					fails++
					if fails <= 10 {
						fmt.Printf("BOUNDED-FAIL order %d mask %05b: column %s holds %v, its input %s has the word %x\n", oi, mask, col, rows[0][ci], src.name, w)
					}
				}
			}
		}
	}
	// second family: a data input that is never bound to a column and whose
	// head is not one word (static array, static tuple) or is an offset
	// (string, dynamic array), in front of, between and behind the selected
	// data inputs x and y; one indexed input a. Every non-empty subset of
	// {a, x, y} is selected.
	type pad struct {
		typ   string
		comps []Input
		head  int // words the input occupies in the head; 0 = offset word + tail
		tail  int // words of tail (after the length word) for dynamic ones
	}
	pads := []pad{
		{typ: "uint256[2]", head: 2},
		{typ: "address[3]", head: 3},
		{typ: "tuple", comps: []Input{{Name: "p", Type: "uint256"}, {Name: "q", Type: "address"}}, head: 2},
		{typ: "tuple", comps: []Input{{Name: "p", Type: "uint256[2]"}, {Name: "q", Type: "bool"}}, head: 3},
		{typ: "string", tail: 2},
		{typ: "uint256[]", tail: 3},
	}
	for pi, pd := range pads {
		for pos := 0; pos < 3; pos++ {
			for mask := 1; mask < 8; mask++ {
				plain := []inp{{"a", "address", true}, {"x", "uint256", false}, {"y", "address", false}}
				ev := Event{Name: "E", Type: "event"}
				tbl := wpg.Table{Name: "t"}
				var ins []Input
				for k, in := range plain {
					i := Input{Name: in.name, Type: in.typ, Indexed: in.indexed}
					if mask&(1<<k) != 0 {
						i.Column = "c_" + in.name
						tbl.Columns = append(tbl.Columns, wpg.Column{Name: i.Column, Type: "bytea"})
					}
					ins = append(ins, i)
				}
				z := Input{Name: "z", Type: pd.typ, Components: pd.comps}
				// data inputs in declaration order: pos 0: z x y, 1: x z y, 2: x y z
				switch pos {
				case 0:
					ev.Inputs = []Input{ins[0], z, ins[1], ins[2]}
				case 1:
					ev.Inputs = []Input{ins[1], z, ins[0], ins[2]}
				case 2:
					ev.Inputs = []Input{ins[1], ins[2], ins[0], z}
				}
				cases++
				ig, err := New("ig", ev, nil, tbl, Notification{}, "")
				if err != nil {
					fails++
					fmt.Printf("BOUNDED-FAIL pad %d (%s) pos %d mask %03b: New: %v\n", pi, pd.typ, pos, mask, err)
					continue
				}
				want := map[string][]byte{"a": wordOf(0x10)}
				l := eth.Log{Topics: []eth.Bytes{ig.sighash, want["a"]}}
				var head, tail []byte
				headWords := 2
				if pd.head > 0 {
					headWords += pd.head
				} else {
					headWords++
				}
				nd := 0
				for _, in := range ev.Inputs {
					switch {
					case in.Indexed:
					case in.Name == "z" && pd.head > 0:
						for k := 0; k < pd.head; k++ {
							w := make([]byte, 32)
							w[31] = byte(0x40 + k) // small values: valid as bool/address/uint
							head = append(head, w...)
						}
					case in.Name == "z":
						off := make([]byte, 32)
						off[31] = byte(headWords*32 + len(tail))
						head = append(head, off...)
						ln := make([]byte, 32)
						if pd.typ == "string" {
							ln[31] = byte(pd.tail*32 - 5)
						} else {
							ln[31] = byte(pd.tail)
						}
						tail = append(tail, ln...)
						for k := 0; k < pd.tail; k++ {
							tail = append(tail, wordOf(byte(0x50+k))...)
						}
					default:
						nd++
						w := wordOf(byte(0x80 + 0x10*nd))
						head = append(head, w...)
						want[in.Name] = w
					}
				}
				l.Data = append(head, tail...)
				lwc := &logWithCtx{ctx: context.Background(), b: &eth.Block{}, t: &eth.Tx{}, l: &l}
				rows, err := ig.processLog(nil, lwc, &sync.Mutex{}, nil)
				if err != nil || len(rows) != 1 {
					fails++
					fmt.Printf("BOUNDED-FAIL pad %d (%s) pos %d mask %03b: rows=%d err=%v\n", pi, pd.typ, pos, mask, len(rows), err)
					continue
				}
				for ci, col := range ig.Columns {
					if len(col) != 3 || col[:2] != "c_" {
						continue
					}
					w := want[col[2:]]
					ok := false
					switch v := rows[0][ci].(type) {
					case []byte:
						ok = bytes.Equal(v, w) || bytes.Equal(v, w[12:])
					case eth.Bytes:
						ok = bytes.Equal(v, w) || bytes.Equal(v, w[12:])
					case *uint256.Int:
						var x uint256.Int
						x.SetBytes(w)
						ok = v.Eq(&x)
					}
					if !ok {
						fails++
						if fails <= 10 {
							fmt.Printf("BOUNDED-FAIL unselected %s at position %d, mask %03b: column %s holds %v, its input has the word %x\n", pd.typ, pos, mask, col, rows[0][ci], w)
						}
					}
				}
			}
		}
	}
	fmt.Printf("BOUNDED cases=%d failures=%d exhaustive=true\n", cases, fails)
	if fails > 0 {
		t.Fail()
	}
}
