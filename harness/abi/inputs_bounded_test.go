package dig

// Bounded stand-in for C11 (labelled bounded): which value each event-input
// column receives. For a five-input event (three indexed inputs and two data
// inputs of different types) in three declaration orders and every non-empty
// subset of selected inputs, the real dig.New (setCols) + processLog run on a
// log whose topics and data words all differ; every selected column must hold
// the value of the input it was declared for (the k-th indexed input is topic
// k whatever else is selected; a data input is its own word).

import (
	"bytes"
	"context"
	"fmt"
	"sync"
	"testing"

	"github.com/holiman/uint256"
	"github.com/indexsupply/shovel/eth"
	"github.com/indexsupply/shovel/wpg"
)

func wordOf(tag byte) []byte {
	w := bytes.Repeat([]byte{tag}, 32)
	w[31] = tag + 1
	return w
}

func TestVerifInputsBounded(t *testing.T) {
	type inp struct {
		name    string
		typ     string
		indexed bool
	}
	orders := [][]inp{
		{{"a", "address", true}, {"b", "uint256", true}, {"c", "bytes32", true}, {"x", "uint256", false}, {"y", "address", false}},
		{{"x", "uint256", false}, {"a", "address", true}, {"y", "address", false}, {"b", "uint256", true}, {"c", "bytes32", true}},
		{{"c", "bytes32", true}, {"y", "address", false}, {"b", "uint256", true}, {"x", "uint256", false}, {"a", "address", true}},
	}
	cases, fails := 0, 0
	for oi, order := range orders {
		for mask := 1; mask < 32; mask++ {
			ev := Event{Name: "E", Type: "event"}
			tbl := wpg.Table{Name: "t"}
			for k, in := range order {
				i := Input{Name: in.name, Type: in.typ, Indexed: in.indexed}
				if mask&(1<<k) != 0 {
					i.Column = "c_" + in.name
					tbl.Columns = append(tbl.Columns, wpg.Column{Name: i.Column, Type: "bytea"})
				}
				ev.Inputs = append(ev.Inputs, i)
			}
			cases++
			ig, err := New("ig", ev, nil, tbl, Notification{}, "")
			if err != nil {
				fails++
				fmt.Printf("BOUNDED-FAIL order %d mask %05b: New: %v\n", oi, mask, err)
				continue
			}
			// the log: topic k for the k-th indexed input, data word j for the j-th data input
			want := map[string][]byte{}
			l := eth.Log{Topics: []eth.Bytes{ig.sighash}}
			nt, nd := 0, 0
			for _, in := range order {
				if in.indexed {
					nt++
					w := wordOf(byte(0x10 * nt))
					l.Topics = append(l.Topics, w)
					want[in.name] = w
				} else {
					nd++
					w := wordOf(byte(0x80 + 0x10*nd))
					l.Data = append(l.Data, w...)
					want[in.name] = w
				}
			}
			lwc := &logWithCtx{ctx: context.Background(), b: &eth.Block{}, t: &eth.Tx{}, l: &l}
			rows, err := ig.processLog(nil, lwc, &sync.Mutex{}, nil)
			if err != nil || len(rows) != 1 {
				fails++
				fmt.Printf("BOUNDED-FAIL order %d mask %05b: rows=%d err=%v\n", oi, mask, len(rows), err)
				continue
			}
			for ci, col := range ig.Columns {
				var src inp
				for _, in := range order {
					if "c_"+in.name == col {
						src = in
					}
				}
				if src.name == "" {
					continue
				}
				w := want[src.name]
				ok := false
				switch v := rows[0][ci].(type) {
				case []byte:
					if src.typ == "address" {
						ok = bytes.Equal(v, w[12:])
					} else {
						ok = bytes.Equal(v, w)
					}
				case eth.Bytes:
					ok = bytes.Equal(v, w) || bytes.Equal(v, w[12:])
				case *uint256.Int:
					var x uint256.Int
					x.SetBytes(w)
					ok = v.Eq(&x)
				}
				if !ok {
					fails++
					if fails <= 10 {
						fmt.Printf("BOUNDED-FAIL order %d mask %05b: column %s holds %v, its input %s has the word %x\n", oi, mask, col, rows[0][ci], src.name, w)
					}
				}
			}
		}
	}
	fmt.Printf("BOUNDED cases=%d failures=%d exhaustive=true\n", cases, fails)
	if fails > 0 {
		t.Fail()
	}
}
