package jrpc2

// Demonstrations for C18 findings under the race detector (go test -race).
// A tiny, deterministic fake Ethereum JSON-RPC node and a fake
// wpg.Conn. The node serves eth_getBlockByNumber (full and header
// form), eth_getBlockReceipts and eth_getLogs for a small synthetic
// chain, answering batches positionally the way a real node does.

import (
	"encoding/json"
	"fmt"
	"io"
	"net/http"
	"net/http/httptest"
	"strconv"
	"strings"
	"sync"
	"testing"

	"github.com/indexsupply/shovel/eth"
)

const (
	chainStart = 100
	chainLen   = 4
	txsPerBlk  = 3
	tokenAddr  = "0x00000000000000000000000000000000000000aa"
)

var transferSig = eth.EncodeHex(eth.Keccak([]byte("Transfer(address,address,uint256)")))

func hx(n uint64) string { return "0x" + strconv.FormatUint(n, 16) }

func pat(tag byte, a, b uint64, n int) string {
	p := make([]byte, n)
	for i := range p {
		p[i] = tag
	}
	p[n-2] = byte(a)
	p[n-1] = byte(b)
	return eth.EncodeHex(p)
}

func blockHash(n uint64) string    { return pat(0xb0, n>>8, n, 32) }
func txHash(n, i uint64) string    { return pat(0xc0, n, i, 32) }
func txFrom(n, i uint64) string    { return pat(0xf0, n, i, 20) }
func txTo(n, i uint64) string      { return pat(0xd0, n, i, 20) }
func txInput(n, i uint64) string   { return pat(0xe0, n, i, 36) }
func blockTime(n uint64) uint64    { return 1700000000 + 12*n }
func txNonce(n, i uint64) uint64   { return 1000*n + i + 1 }
func txStatus(n, i uint64) uint64  { return (n + i) % 2 }
func txGasUsed(n, i uint64) uint64 { return 21000 + 100*n + i }
func logIdx(i uint64) uint64       { return i }

func word(addrHex string) string {
	return "0x" + strings.Repeat("0", 24) + strings.TrimPrefix(addrHex, "0x")
}

func mkLog(n, i uint64) map[string]any {
	return map[string]any{
		"address":          tokenAddr,
		"topics":           []string{transferSig, word(txFrom(n, i)), word(txTo(n, i))},
		"data":             "0x" + fmt.Sprintf("%064x", 5000+10*n+i),
		"logIndex":         hx(logIdx(i)),
		"blockNumber":      hx(n),
		"blockHash":        blockHash(n),
		"transactionHash":  txHash(n, i),
		"transactionIndex": hx(i),
		"removed":          false,
	}
}

func mkTx(n, i uint64) map[string]any {
	return map[string]any{
		"hash":                 txHash(n, i),
		"transactionIndex":     hx(i),
		"type":                 "0x2",
		"nonce":                hx(txNonce(n, i)),
		"gasPrice":             hx(30_000_000_000 + i),
		"gas":                  hx(90000),
		"from":                 txFrom(n, i),
		"to":                   txTo(n, i),
		"value":                hx(7_000_000 + 10*n + i),
		"input":                txInput(n, i),
		"v":                    "0x1",
		"r":                    "0x1",
		"s":                    "0x1",
		"maxPriorityFeePerGas": hx(2_000_000_000 + i),
		"maxFeePerGas":         hx(40_000_000_000 + i),
		"blockNumber":          hx(n),
		"blockHash":            blockHash(n),
	}
}

func mkBlock(n uint64, full bool) map[string]any {
	b := map[string]any{
		"number":     hx(n),
		"hash":       blockHash(n),
		"parentHash": blockHash(n - 1),
		"timestamp":  hx(blockTime(n)),
		"logsBloom":  "0x00",
	}
	var txs []any
	for i := uint64(0); i < txsPerBlk; i++ {
		if full {
			txs = append(txs, mkTx(n, i))
		} else {
			txs = append(txs, txHash(n, i))
		}
	}
	b["transactions"] = txs
	return b
}

func mkReceipts(n uint64) []any {
	var rs []any
	for i := uint64(0); i < txsPerBlk; i++ {
		rs = append(rs, map[string]any{
			"blockHash":         blockHash(n),
			"blockNumber":       hx(n),
			"transactionHash":   txHash(n, i),
			"transactionIndex":  hx(i),
			"type":              "0x2",
			"from":              txFrom(n, i),
			"to":                txTo(n, i),
			"status":            hx(txStatus(n, i)),
			"gasUsed":           hx(txGasUsed(n, i)),
			"effectiveGasPrice": hx(31_000_000_000 + i),
			"contractAddress":   nil,
			"logs":              []any{mkLog(n, i)},
		})
	}
	return rs
}

type rpcReq struct {
	ID     any               `json:"id"`
	Method string            `json:"method"`
	Params []json.RawMessage `json:"params"`
}

type fakeNode struct {
	mu    sync.Mutex
	calls []string // methods in arrival order, "m(arg)" form
	ts    *httptest.Server
}

func parseNum(raw json.RawMessage) uint64 {
	var s string
	json.Unmarshal(raw, &s)
	n, _ := strconv.ParseUint(strings.TrimPrefix(s, "0x"), 16, 64)
	return n
}

func (fn *fakeNode) answer(r rpcReq) map[string]any {
	res := map[string]any{"jsonrpc": "2.0", "id": r.ID}
	switch r.Method {
	case "eth_getBlockByNumber":
		var full bool
		json.Unmarshal(r.Params[1], &full)
		n := parseNum(r.Params[0])
		fn.calls = append(fn.calls, fmt.Sprintf("eth_getBlockByNumber(%d,%v)", n, full))
		res["result"] = mkBlock(n, full)
	case "eth_getBlockReceipts":
		n := parseNum(r.Params[0])
		fn.calls = append(fn.calls, fmt.Sprintf("eth_getBlockReceipts(%d)", n))
		res["result"] = mkReceipts(n)
	case "eth_getLogs":
		var f struct {
			From   string     `json:"fromBlock"`
			To     string     `json:"toBlock"`
			Topics [][]string `json:"topics"`
		}
		json.Unmarshal(r.Params[0], &f)
		from, _ := strconv.ParseUint(strings.TrimPrefix(f.From, "0x"), 16, 64)
		to, _ := strconv.ParseUint(strings.TrimPrefix(f.To, "0x"), 16, 64)
		fn.calls = append(fn.calls, fmt.Sprintf("eth_getLogs(%d,%d)", from, to))
		logs := []any{}
		for n := from; n <= to; n++ {
			for i := uint64(0); i < txsPerBlk; i++ {
				if len(f.Topics) > 0 && len(f.Topics[0]) > 0 && f.Topics[0][0] != transferSig {
					continue
				}
				logs = append(logs, mkLog(n, i))
			}
		}
		res["result"] = logs
	default:
		res["error"] = map[string]any{"code": -32601, "message": "no such method " + r.Method}
	}
	return res
}

func newFakeNode(t *testing.T) *fakeNode {
	fn := &fakeNode{}
	fn.ts = httptest.NewServer(http.HandlerFunc(func(w http.ResponseWriter, r *http.Request) {
		body, _ := io.ReadAll(r.Body)
		fn.mu.Lock()
		defer fn.mu.Unlock()
		var batch []rpcReq
		if err := json.Unmarshal(body, &batch); err == nil {
			out := make([]any, len(batch))
			for i := range batch {
				out[i] = fn.answer(batch[i])
			}
			json.NewEncoder(w).Encode(out)
			return
		}
		var one rpcReq
		if err := json.Unmarshal(body, &one); err != nil {
			t.Errorf("fake node: bad request %s", body)
			return
		}
		json.NewEncoder(w).Encode(fn.answer(one))
	}))
	t.Cleanup(fn.ts.Close)
	return fn
}

