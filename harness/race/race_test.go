package jrpc2

import (
	"context"
	"sync"
	"testing"

	"github.com/indexsupply/shovel/shovel/glf"
)

// F16: two tasks on one source client reading the same cached segment with a
// receipts plan: receipts() rewrites the shared cached blocks (Block.Tx,
// Tx.Status, Tx.Logs ...) without the block lock.
func TestVerifRaceReceipts(t *testing.T) {
	fn := newFakeNode(t)
	c := New(fn.ts.URL)
	var wg sync.WaitGroup
	for g := 0; g < 4; g++ {
		wg.Add(1)
		go func() {
			defer wg.Done()
			for k := 0; k < 5; k++ {
				_, err := c.Get(context.Background(), fn.ts.URL, &glf.Filter{UseBlocks: true, UseReceipts: true}, chainStart, 2)
				if err != nil {
					t.Error(err)
				}
			}
		}()
	}
	wg.Wait()
}

// F18: Latest reads lcache.once without the lock while get() (error state)
// replaces it under the lock.
func TestVerifRaceOnce(t *testing.T) {
	fn := newFakeNode(t)
	c := New(fn.ts.URL)
	var wg sync.WaitGroup
	for g := 0; g < 4; g++ {
		wg.Add(1)
		go func(g int) {
			defer wg.Done()
			for k := 0; k < 50; k++ {
				if g == 0 {
					c.lcache.error(context.DeadlineExceeded) // what httpPoll/wsListen do on a failed poll
				}
				c.Latest(context.Background(), fn.ts.URL, 1)
			}
		}(g)
	}
	wg.Wait()
}

// F16 (hash memo): logs() writes tx.PrecompHash of shared cached transactions
// under the block lock only, while a task that already holds the blocks reads
// the memo through Tx.Hash() under cacheMut.
func TestVerifRaceTxHash(t *testing.T) {
	fn := newFakeNode(t)
	c := New(fn.ts.URL)
	f := &glf.Filter{UseHeaders: true, UseLogs: true}
	blocks, err := c.Get(context.Background(), fn.ts.URL, f, chainStart, 2)
	if err != nil {
		t.Fatal(err)
	}
	var wg sync.WaitGroup
	wg.Add(2)
	go func() {
		defer wg.Done()
		for k := 0; k < 20; k++ {
			c.Get(context.Background(), fn.ts.URL, f, chainStart, 2)
		}
	}()
	go func() {
		defer wg.Done()
		for k := 0; k < 200; k++ {
			for i := range blocks {
				for j := range blocks[i].Txs {
					blocks[i].Txs[j].Hash()
				}
			}
		}
	}()
	wg.Wait()
}

// F19: NextURL adds to reqCounter atomically and then reads it with a plain
// load; every task of a source calls NextURL on the shared client.
func TestVerifRaceNextURL(t *testing.T) {
	fn := newFakeNode(t)
	c := New(fn.ts.URL, fn.ts.URL)
	var wg sync.WaitGroup
	for g := 0; g < 4; g++ {
		wg.Add(1)
		go func() {
			defer wg.Done()
			for k := 0; k < 1000; k++ {
				c.NextURL()
			}
		}()
	}
	wg.Wait()
}
