package eth

// Bounded stand-in for the hex helpers of C17 that lean on encoding/hex and
// strconv (labelled bounded): DecodeHex/EncodeHex/DecodeUint64/EncodeUint64
// against an independent specification, exhaustively for short inputs and
// for boundary and seeded random longer ones.

import (
	"bytes"
	"fmt"
	"math/rand"
	"os"
	"strconv"
	"strings"
	"testing"
)

func specNib(c byte) (byte, bool) {
	switch {
	case c >= '0' && c <= '9':
		return c - '0', true
	case c >= 'a' && c <= 'f':
		return c - 'a' + 10, true
	case c >= 'A' && c <= 'F':
		return c - 'A' + 10, true
	}
	return 0, false
}

// specification of DecodeHex for all-hex digit strings (optional 0x/0X prefix, odd length padded on the left)
func specDecode(s string) []byte {
	if len(s) >= 2 && s[0] == '0' && (s[1] == 'x' || s[1] == 'X') {
		s = s[2:]
	}
	if len(s)%2 == 1 {
		s = "0" + s
	}
	out := make([]byte, 0, len(s)/2)
	for i := 0; i+1 < len(s); i += 2 {
		h, _ := specNib(s[i])
		l, _ := specNib(s[i+1])
		out = append(out, h<<4|l)
	}
	return out
}

func TestVerifHexBounded(t *testing.T) {
	cases, fails := 0, 0
	fail := func(format string, a ...any) {
		fails++
		if fails <= 10 {
			fmt.Printf("BOUNDED-FAIL "+format+"\n", a...)
		}
	}
	digits := "0123456789abcdefABCDEF"
	// every hex string of length 0..3 with and without either prefix
	var gen func(prefix string, n int)
	gen = func(cur string, n int) {
		for _, pre := range []string{"", "0x", "0X"} {
			s := pre + cur
			if pre == "" && len(cur) >= 2 && cur[0] == '0' && (cur[1] == 'x' || cur[1] == 'X') {
				continue
			}
			cases++
			if got, want := DecodeHex(s), specDecode(s); !bytes.Equal(got, want) {
				fail("DecodeHex(%q) = %x, want %x", s, got, want)
			}
		}
		if n == 0 {
			return
		}
		for i := 0; i < len(digits); i++ {
			gen(cur+string(digits[i]), n-1)
		}
	}
	gen("", 3)
	// round trips: every byte string of length 0..2, boundary lengths, seeded random ones
	seed, _ := strconv.ParseInt(os.Getenv("VERIF_SEED"), 10, 64)
	rng := rand.New(rand.NewSource(seed + 7))
	var samples [][]byte
	samples = append(samples, []byte{})
	for a := 0; a < 256; a++ {
		samples = append(samples, []byte{byte(a)})
		for b := 0; b < 256; b += 17 {
			samples = append(samples, []byte{byte(a), byte(b)})
		}
	}
	for _, n := range []int{20, 31, 32, 33, 64, 255, 256, 4096} {
		b := make([]byte, n)
		rng.Read(b)
		samples = append(samples, b)
	}
	for _, b := range samples {
		cases++
		e := EncodeHex(b)
		if !strings.HasPrefix(e, "0x") || len(e) != 2+2*len(b) || e != strings.ToLower(e) {
			fail("EncodeHex(%x) = %q", b, e)
		}
		if got := DecodeHex(e); !bytes.Equal(got, b) {
			fail("DecodeHex(EncodeHex(%x)) = %x", b, got)
		}
		if got := DecodeHex(strings.ToUpper(e[2:])); !bytes.Equal(got, b) {
			fail("DecodeHex(upper case %x) = %x", b, got)
		}
	}
	for _, n := range []uint64{0, 1, 9, 10, 15, 16, 255, 256, 1<<32 - 1, 1 << 32, 1<<63 - 1, 1 << 63, 1<<64 - 1} {
		for _, m := range []uint64{n, n ^ uint64(rng.Int63())} {
			cases++
			e := EncodeUint64(m)
			if DecodeUint64(e) != m || DecodeUint64(strings.ToUpper(e[2:])) != m || DecodeUint64("0x0"+e[2:]) != m {
				fail("uint64 round trip of %d through %q", m, e)
			}
			if want := "0x" + strconv.FormatUint(m, 16); e != want {
				fail("EncodeUint64(%d) = %q", m, e)
			}
		}
	}
	// Bytes as JSON: the wire form is "0x" + lower-case hex for every length
	// (incl. 0), and encode -> decode into a reused destination holding a
	// longer previous value gives back exactly the encoded bytes
	for n := 0; n <= 70; n++ {
		cases++
		v := make(Bytes, n)
		for i := range v {
			v[i] = byte(0xa0 + i)
		}
		out, err := v.MarshalJSON()
		want := "\"0x"
		for _, b := range v {
			want += string("0123456789abcdef"[b>>4]) + string("0123456789abcdef"[b&15])
		}
		want += "\""
		if err != nil || string(out) != want {
			fails++
			if fails <= 10 {
				fmt.Printf("BOUNDED-FAIL Bytes of length %d encodes as %s (err=%v), want %s\n", n, out, err, want)
			}
			continue
		}
		dst := Bytes(bytes.Repeat([]byte{0xee}, 80))
		if err := dst.UnmarshalJSON(out); err != nil || !bytes.Equal(dst, v) {
			fails++
			if fails <= 10 {
				fmt.Printf("BOUNDED-FAIL Bytes of length %d: decoding its own encoding %s gives %x (err=%v)\n", n, out, []byte(dst), err)
			}
		}
	}
	fmt.Printf("BOUNDED cases=%d failures=%d exhaustive=true\n", cases, fails)
	if fails > 0 {
		t.Fail()
	}
}
