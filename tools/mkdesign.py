#!/usr/bin/env python3
# DESIGN.md = DESIGN_part1.md (with the seed table generated from tools/seeds.json) + DESIGN_part2.md (round-0 design, frozen)
import json
reg=json.load(open('/verif/tools/seeds.json'))
rows=["| seed | property | needs to manifest | result | detected by |","|---|---|---|---|---|"]
def key(s):
    p,k=s.split('-'); return (p,int(k))
for sid in sorted(reg,key=key):
    m=reg[sid]
    rows.append("| %s | %s | %s | %s | %s |"%(sid,m['property'],m['needs'].replace('|','/'),m['status'],m['by'].replace('|','/')))
n=len(reg); caught=sum(1 for m in reg.values() if m['status']=='caught'); missed=[s for s,m in reg.items() if m['status']=='missed']
summary="%d seeded changes, %d caught, %d missed (%s), %d pending."%(n,caught,len(missed),', '.join(sorted(missed)) or 'none',sum(1 for m in reg.values() if m['status']=='pending'))
p1=open('/verif/DESIGN_part1.md').read().replace('SEEDTABLE',summary+"\n\n"+"\n".join(rows))
p2=open('/verif/DESIGN_part2.md').read()
open('/verif/DESIGN.md','w').write(p1+"\n\n--------------------------------------------------------------------------------------------\n\n# Part II — the design written before any code existed (round 0; kept for the intended oracle of every property; where it differs from Part I, Part I is what runs)\n\n"+p2)
print(summary)
