#!/usr/bin/env python3
# Assembles /verif/seeded/<id>/ from the sub-agents' raw output and tools/seeds.json
import json,os,shutil
reg=json.load(open('/verif/tools/seeds.json'))
for sid,m in reg.items():
    pid,k=sid.split('-')
    raw=f'/verif/seeded_raw/{m.get("raw",pid)}'
    k=m.get('k',k)
    if not os.path.isdir(raw): continue
    out=f'/verif/seeded/{sid}'
    shutil.rmtree(out,ignore_errors=True); os.makedirs(out)
    shutil.copy(f'{raw}/change{k}.diff',f'{out}/patch.diff')
    if os.path.exists(f'{raw}/change{k}.md'): shutil.copy(f'{raw}/change{k}.md',f'{out}/description.md')
    shutil.copytree(f'{raw}/demo{k}',f'{out}/demo')
    meta={"id":sid,"breaks_property":m["property"],"needs_to_manifest":m["needs"],
      "produced_by":"independent sub-agent given only the property text and a scratch worktree",
      "confirmed":"in a scratch worktree of /repo HEAD: patch applies, go build ./... ok, offline suite passes, demo/RUN.sh fails with the patch and passes without (tools/seed.sh)",
      "checks_run":f"/verif/bin/vc check -prop {m['property']} (and the other claimed properties) against the patched tree",
      "result":m["status"],"detected_by":m["by"]}
    json.dump(meta,open(f'{out}/meta.json','w'),indent=1)
print(len(reg),"seeds")
