#!/usr/bin/env python3
# Regenerates /verif/MANIFEST.json from the table below.
import json
props=[json.loads(l) for l in open('/verif/properties.jsonl')]
T="contract-based deductive verification (weakest preconditions over go/ssa, contracts in /repo/<pkg>/verif_contracts.go, SMT: z3/z3-new/cvc5 raced)"
claimed={
 "C07":dict(cat="proof",text="validate's contract (the requested consecutive numbers, hash-linked, non-empty) and Error.Exists are proved for all responses; the other fetch functions are not under contract yet",
   note="Only jrpc2.validate and Error.Exists are under contract so far: error-member/status/nil-result handling and log/receipt range checks of the fetch functions are NOT yet covered. Assumed: bytes.Equal, fmt.Errorf, slog contracts; JSON decoding is outside the verified text.",ref="DESIGN.md §5 C07"),
 "C10":dict(cat="proof",text="scan, Result.Scan, GetRow, hasSelect, hasKind, bint.Decode under contract with NO precondition on the input bytes: no panic, every slice expression ends within len(input) (not cap), every decoded cell is empty or a sub-range of the input, per-activation iteration bound 32*i <= pos; 64-bit bit-vector arithmetic, recursion through scan's own contract (any nesting depth)",
   note="Assumes well-formed type trees (wfs/wfp: sizes < 2^40, selected positions < ncols, static array elements >= 32 bytes) — established by the constructors, which is part of C09, not yet proved; slices < 2^47 elements; the iteration bound is per array level (product over nesting depth is not bounded); processLog's topic indexing not yet under contract.",ref="DESIGN.md §5 C10"),
 "C17":dict(cat="proof",text="bint.Decode/size/Encode, eth.decode, Uint64/Byte/Bytes.UnmarshalJSON, Bytes.Write under contract: exact values, error iff non-hex/odd, total (no panic on any token), no stale bytes; unbounded in input length and value",
   note="Assumed: encoding/hex.Decode contract, UTF-8 range-over-string summary (ASCII exact), fmt.Errorf; Encode/Decode round-trip stated per byte (all k) rather than as a single composed lemma; DecodeHex/EncodeUint64 (strconv) not under contract.",ref="DESIGN.md §5 C17"),
}
G="ghost database of the task's own (source, integration) pair (cur/hash/rows; committed D, working copy W) threaded through contracts on Task.Converge/latest/latestDependency/load/insert/update/Delete and dig.Integration.Delete; the SQL constants of the real code are parsed on every run and given relational semantics; the committed state changes only at pgx Commit, where the invariant parts and the commit clauses are proved (this is what replaces enumerating crash points and histories). "
A="Assumed: pgx transaction semantics (commit atomic, error = no effect), Destination.Insert adds each block's rows once or fails without effect (COPY all-or-nothing), Source.Get returns the requested consecutive blocks or an error, goroutines of errgroup run at their launch point (sequentialisation), sorting a permutation of b0..b0+n-1 yields the identity arrangement (stated at the call of slices.SortFunc), block numbers < 2^62, batch_size and concurrency < 2^20. One writer per pair (see C20). "
claimed.update({
 "C01":dict(cat="proof",text=G+"C01: a successful step loads blocks localNum+1..localNum+k (1<=k<=delta<=batch) for every batch size and concurrency (symbolic bit-vectors, incl. batch<concurrency and non-divisible pairs), adds their rows exactly once and records position localNum+k with the last block's hash; no block's rows are present twice; the position advances from the top.",
   note=A+"Not decided: that failing RPC/DB calls eventually stop (liveness); what a block contributes (the declared projection) is C09-C13, here an uninterpreted 'rows of block n'.",ref="DESIGN.md §4 C01"),
 "C02":dict(cat="proof",text=G+"C02: every state published by a Commit (and by any statement issued outside the open transaction, which would be an autocommit) satisfies the invariant: no row above a recorded position, rows at most once; the cursor row and the rows are written on the same transaction handle (connection identity is tracked; Begin/Commit discipline is checked); a failing step publishes at most the unwound state of commit#1.",
   note=A+"Crash = any point: D changes only at Commit, so the commit obligations cover every crash point; faults inside pgx/PostgreSQL themselves are not modelled. Retry-completes-as-if-no-fault is covered only as 'the contract has no precondition beyond the invariant'.",ref="DESIGN.md §4 C02"),
 "C03":dict(cat="proof",text=G+"C03 (safety half): a reorg is raised exactly when the first loaded block's 32-byte parent differs from the recorded hash; Task.Delete removes positions >= n and every row above the remaining position; the unwinding loop keeps 'no row above the recorded position' for W; partitions of one load must link; dig.Integration.Delete refines the assumed Destination.Delete (block_num >= n, own pair, given connection).",
   note=A+"Not decided: convergence 'once the source settles' (eventuality); cache staleness after a reorg; linkage of the whole stored chain across steps is carried only through the recorded hash of the top position.",ref="DESIGN.md §4 C03"),
 "C04":dict(cat="proof",text=G+"C04: every statement on shovel.task_updates or the integration table in task.go/dig.go carries src_name = $i and ig_name = $j conjuncts/columns (parsed from the real SQL) bound to the task's own names (obligations sql-pair[...]); callees act on the caller's pair; the ghost state of other pairs is never touched (frame by construction of the statements).",
   note=A+"Not yet proved: that loadTasks gives Task.srcName/destConfig.Name, the context values and dig.Integration.name the same pair (names equality), row stamping through lwc.get; interleavings through the shared block cache (only lock ownership, C18) ; PruneTask is deliberately excluded.",ref="DESIGN.md §4 C04"),
 "C05":dict(cat="proof",text=G+"C05: with dependencies, no new position exceeds the position returned by the dependency query, and nothing is written when it returns none; the dependency query is restricted to the task's own source. KNOWN FINDING (F14): the query ignores referenced integrations that have no rows yet.",
   note=A+"The dependency CTE is outside the parsed SQL subset and bound by normalised text to a hand-written semantics (min over referenced integrations WITH rows); ValidateFilterRefs' derivation of Dependencies is not yet under contract.",ref="DESIGN.md §4 C05"),
 "C06":dict(cat="proof",text=G+"C06: latest() resumes from the top recorded position, else start-1 (or head-1); ErrDone is returned before any write once position >= stop; every published position lies in [start-1, stop] and every added row in [start, stop], for symbolic start/stop/head/batch.",
   note=A+"jrpc2.Client.Hash/Latest nil-result handling (F9) is part of C07 and not yet under contract.",ref="DESIGN.md §4 C06"),
})
claimed.update({
 "C08":dict(cat="proof",text="head cache (NumHash.update/get/error): a hit is the stored pair, served at most maxreads times in a row, never in an error state; a stale announcement changes nothing (bytes included). Segment cache (cache.get/pruneMaxRead): invariant 'a segment marked done holds the result of a successful fetch' is preserved, the result of get is always a successful fetch, expired segments are removed before lookup.",
   note="Sequential contracts only: equivalence with an uncached client under CONCURRENT request mixes is not decided. pruneSegments (sort.Slice with a closure) has a TRUSTED contract ('only removes entries'). The getter is an assumed function value (fetched(b) on success, no effect on existing memory). Logs.Add / Block.Tx de-duplication not yet under contract.",ref="DESIGN.md §5 C08"),
 "C09":dict(cat="proof",text="hasStatic and sizeof are proved equal to the ABI specification (isStatic/headSize) for every type tree (recursion through their own contracts). The decoding itself is covered by a BOUNDED stand-in (labelled bounded, not counted as proved): real Event.ABIType + Result.Scan vs an independent ABI encoder and row-rule specification over 28 field shapes x all 1- and 2-field events x 4 value variants x decoder reuse (6048 cases quick).",
   note="scan's addressing is NOT proved deductively (bounded stand-in only, depth <= 3, arrays <= 4 elements, T[12] as the k >= 10 representative); constructors establishing wf are not yet under contract.",ref="DESIGN.md §5 C09",tech="contract-based deductive verification for hasStatic/sizeof; bounded exhaustive comparison against a specification encoder for scan (labelled bounded)"),
 "C11":dict(cat="proof",text="lwc.get returns exactly the Go field each name denotes (22 names, loop-free, all return points); dbtype maps by ABI type (address -> last 20 bytes incl. address arrays, bool, string, bytes, uint/int -> 256-bit value of the word).",
   note="NOT yet covered: JSON tag -> struct field provenance, receipts/logs/traces copies, processLog's indexed-topic selection (F4, genuine defect not yet repaired: topic index counts selected inputs only), processTx, COPY encoding. uint256 arithmetic assumed.",ref="DESIGN.md §5 C11"),
 "C12":dict(cat="proof",text="filterResults.add/accept fold (and/or, no filter accepts); Filter.Accept operator matrix for uint64 (eq/ne/gt/lt on the first argument), uint256 (same, via assumed SetFromDecimal/Cmp), strings (eq/ne first argument, contains/!contains membership); processLog starts every row with an empty aggregation.",
   note="Byte-string filters (contains/eq over hex arguments, reference lookups) are covered only structurally (a result is folded in); the pushdown lemma (address/topic restrictions never exclude an accepted log; F13) is NOT yet covered.",ref="DESIGN.md §5 C12"),
 "C13":dict(cat="proof",text="processLog's gate: a log whose topic count differs from numIndexed+1, or whose first topic differs from the signature hash, leaves the rows unchanged (checked before any decoding, no indexing of an empty topic list). Bounded stand-in (labelled): Event.Signature vs an independent canonicalisation for tuple/array nestings of depth <= 3 and known Keccak hashes.",
   note="Signature canonicalisation is bounded, not proved; Keccak assumed; numIndexed's count not yet under contract.",ref="DESIGN.md §5 C13",tech="contract-based deductive verification (gate) + bounded comparison for the canonical signature (labelled bounded)"),
 "C15":dict(cat="proof",text="wstrings.Safe returns nil exactly for strings whose every rune is a letter, digit, '_' or '-' (recursive spec over runes, loop invariant).",
   note="ONLY Safe is covered so far: that CheckUserInput applies it to every SQL-spliced position (F7: Ref.Table, nested refs, Unique, Index are unchecked) and the sink discovery are NOT yet covered. UTF-8 decoding summarised (ASCII exact).",ref="DESIGN.md §5 C15"),
 "C19":dict(cat="proof",text="Authn's closure: the protected handler is called (exactly once) iff DisableAuthn, or loopback while loopback authentication is not enforced, or session.Get returns nil; otherwise exactly one 303 redirect to /login and the handler is not called. Login issues a session only after ConstantTimeCompare(supplied, h.password) == 1. isLoopback is false when the address does not split.",
   note="kr/session, net, subtle are assumed (session.Get == nil iff a cookie minted by this process); route registration in cmd/shovel/main.go (each protected path wrapped in Authn) is not yet checked.",ref="DESIGN.md §5 C19"),
})
na_reason={p["id"]:"check not built yet (work in progress; see DESIGN.md §9 build order)" for p in props}
m={"version":1,
 "setup_cmd":"cd /verif && GOFLAGS=-mod=mod GOPROXY=off GOSUMDB=off GOTOOLCHAIN=local go build -o bin/vc ./cmd/vc && (cd /repo && GOFLAGS=-mod=mod GOPROXY=off GOSUMDB=off GOTOOLCHAIN=local go build -tags verif ./... )",
 "hooks":{"guard":"verif","enable":"-tags verif: contract files /repo/<pkg>/verif_contracts.go carry //go:build verif and contain comments only (package clause + //@ lines)",
   "baseline_off_cmd":"cd /repo && GOFLAGS=-mod=mod GOPROXY=off GOSUMDB=off GOTOOLCHAIN=local go test -json -vet=off -count=1 -timeout 25m ./...",
   "source_commits":[],"add_only":True},
 "engines":[{"name":"vc","path":"/verif/cmd/vc","serves_properties":sorted(claimed),"kind_free_text":"VC generator over go/ssa (x/tools v0.29.0) + contract language + solver race (z3 4.8.12, z3-new 5.1.0, cvc5 1.0.3) + replay through go test -overlay"}],
 "checks":[],"not_applicable":[],
 "notes":"Known findings and repaired defects: /verif/KNOWN_FINDINGS.txt. Must-fail corpus: /verif/selftest/run.sh."}
import subprocess
hooks=subprocess.run(["git","-C","/repo","log","--format=%h %s"],capture_output=True,text=True).stdout.splitlines()
m["hooks"]["source_commits"]=[l.split()[0] for l in hooks if l.split(' ',1)[1].startswith("verif:")]
for p in props:
    i=p["id"]
    if i in claimed:
        c=claimed[i]
        m["checks"].append({"property_id":i,"quick_cmd":f"/verif/run.sh {i} quick","thorough_cmd":f"/verif/run.sh {i} thorough","evidence_file":f"/verif/evidence/{i}.json","engine":"vc",
          "replay_cmd_template":"cat {path}",
          "level_claimed":{"category":c["cat"],"text":c["text"],"design_ref":c["ref"]},"level_note":c["note"],"technique":c.get("tech",T)})
    else:
        m["not_applicable"].append({"property_id":i,"reason":na_reason[i]})
json.dump(m,open('/verif/MANIFEST.json','w'),indent=1)
print("claimed:",sorted(claimed))
