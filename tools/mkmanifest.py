#!/usr/bin/env python3
# Regenerates /verif/MANIFEST.json from the table below.
import json
props=[json.loads(l) for l in open('/verif/properties.jsonl')]
T="contract-based deductive verification (weakest preconditions over go/ssa, contracts in /repo/<pkg>/verif_contracts.go, SMT: z3/z3-new/cvc5 raced)"
claimed={
 "C07":dict(cat="proof",text="validate's contract (the requested consecutive numbers, hash-linked, non-empty) and Error.Exists are proved for all responses; the other fetch functions are not under contract yet",
   note="Only jrpc2.validate and Error.Exists are under contract so far: error-member/status/nil-result handling and log/receipt range checks of the fetch functions are NOT yet covered. Assumed: bytes.Equal, fmt.Errorf, slog contracts; JSON decoding is outside the verified text.",ref="DESIGN.md §5 C07"),
 "C10":dict(cat="proof",text="scan, Result.Scan, GetRow, hasSelect, hasKind, bint.Decode under contract with NO precondition on the input bytes: no panic, every slice expression ends within len(input) (not cap), every decoded cell is empty or a sub-range of the input, per-activation iteration bound 32*i <= pos; 64-bit bit-vector arithmetic, recursion through scan's own contract (any nesting depth)",
   note="Assumes well-formed type trees (wfs/wfp: sizes < 2^40, selected positions < ncols, static array elements >= 32 bytes) — established by the constructors, which is part of C09, not yet proved; slices < 2^47 elements; the iteration bound is per array level (product over nesting depth is not bounded); processLog's topic indexing not yet under contract.",ref="DESIGN.md §5 C10"),
 "C17":dict(cat="proof",text="bint.Decode/size/Encode, eth.decode, Uint64/Byte/Bytes.UnmarshalJSON, Bytes.Write under contract: exact values, error iff non-hex/odd, total (no panic on any token), no stale bytes; unbounded in input length and value",
   note="Assumed: encoding/hex.Decode contract, UTF-8 range-over-string summary (ASCII exact), fmt.Errorf; Encode/Decode round-trip stated per byte (all k) rather than as a single composed lemma; DecodeHex/EncodeUint64 (strconv) not under contract.",ref="DESIGN.md §5 C17"),
}
na_reason={p["id"]:"check not built yet (work in progress; see DESIGN.md §9 build order)" for p in props}
m={"version":1,
 "setup_cmd":"cd /verif && GOFLAGS=-mod=mod GOPROXY=off GOSUMDB=off GOTOOLCHAIN=local go build -o bin/vc ./cmd/vc && (cd /repo && GOFLAGS=-mod=mod GOPROXY=off GOSUMDB=off GOTOOLCHAIN=local go build -tags verif ./... )",
 "hooks":{"guard":"verif","enable":"-tags verif: contract files /repo/<pkg>/verif_contracts.go carry //go:build verif and contain comments only (package clause + //@ lines)",
   "baseline_off_cmd":"cd /repo && GOFLAGS=-mod=mod GOPROXY=off GOSUMDB=off GOTOOLCHAIN=local go test -json -vet=off -count=1 -timeout 25m ./...",
   "source_commits":[],"add_only":True},
 "engines":[{"name":"vc","path":"/verif/cmd/vc","serves_properties":sorted(claimed),"kind_free_text":"VC generator over go/ssa (x/tools v0.29.0) + contract language + solver race (z3 4.8.12, z3-new 5.1.0, cvc5 1.0.3) + replay through go test -overlay"}],
 "checks":[],"not_applicable":[],
 "notes":"Known findings and repaired defects: /verif/KNOWN_FINDINGS.txt. Must-fail corpus: /verif/selftest/run.sh."}
import subprocess
hooks=subprocess.run(["git","-C","/repo","log","--format=%h %s"],capture_output=True,text=True).stdout.splitlines()
m["hooks"]["source_commits"]=[l.split()[0] for l in hooks if l.split(' ',1)[1].startswith("verif:")]
for p in props:
    i=p["id"]
    if i in claimed:
        c=claimed[i]
        m["checks"].append({"property_id":i,"quick_cmd":f"/verif/run.sh {i} quick","thorough_cmd":f"/verif/run.sh {i} thorough","evidence_file":f"/verif/evidence/{i}.json","engine":"vc",
          "replay_cmd_template":"cat {path}",
          "level_claimed":{"category":c["cat"],"text":c["text"],"design_ref":c["ref"]},"level_note":c["note"],"technique":c.get("tech",T)})
    else:
        m["not_applicable"].append({"property_id":i,"reason":na_reason[i]})
json.dump(m,open('/verif/MANIFEST.json','w'),indent=1)
print("claimed:",sorted(claimed))
