#!/bin/sh
# tools/seed.sh <ID> <k> [extra props...]: verify a sub-agent's seeded change
# in a scratch worktree and run the checks against it.
set -u
export GOFLAGS=-mod=mod GOPROXY=off GOSUMDB=off GOTOOLCHAIN=local VC_RETRY=${VC_RETRY:-30}
RAWN=$1; ID=$(echo $1 | cut -c1-3); K=$2; shift 2
RAW=/verif/seeded_raw/$RAWN
S=/tmp/seedwt-$ID-$K
git -C /repo worktree remove --force $S 2>/dev/null; rm -rf $S
git -C /repo worktree add -q --detach $S HEAD || exit 2
cd $S
cp -r $RAW seeded; grep -rl "/tmp/wt/$ID" seeded 2>/dev/null | xargs -r sed -i "s#/tmp/wt/$ID#$S#g"
echo "== apply"; git apply seeded/change$K.diff 2>&1 || { patch -p1 < seeded/change$K.diff || { echo APPLY-FAILED; exit 3; }; }
git diff --stat | tail -2
echo "== build"; go build ./... 2>&1 | tail -3
echo "== suite"; go test -vet=off -count=1 ./bint/... ./eth/... ./jrpc2/... ./shovel/config/... ./shovel/glf/... ./wctx/... ./wos/... ./wslog/... 2>&1 | grep -v "^ok" | tail -5; echo "suite rc=$?"
echo "== demo with change"; (sh seeded/demo$K/RUN.sh > /tmp/seed-$ID-$K.changed.log 2>&1; echo "rc=$?")
echo "== checks with change"
mkdir -p /tmp/seedv-$ID-$K; cp /verif/KNOWN_FINDINGS.txt /tmp/seedv-$ID-$K/; for P in $ID "$@"; do /verif/bin/vc check -prop $P -repo $S -verif /tmp/seedv-$ID-$K 2>&1 | grep -E "^VIOLATION|^property=|^KNOWN" | cut -c1-260 | grep -v "^KNOWN" | head -6; done
echo "== demo without change"; git checkout -q -- . ; (sh seeded/demo$K/RUN.sh > /tmp/seed-$ID-$K.unchanged.log 2>&1; echo "rc=$?")
cd /verif; git -C /repo worktree remove --force $S; rm -rf /tmp/seedv-$ID-$K
