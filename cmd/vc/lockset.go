package main

// E2 ownership obligations: guarded-by contracts discharged by a must-hold
// lockset dataflow over go/ssa. This decides a lock DISCIPLINE (every access
// to a guarded field happens while the owning object's lock is held, every
// goroutine closure touches captured variables only under a lock); it is not
// an exploration of schedules and knows no happens-before edges other than
// mutexes (channels, WaitGroup, errgroup.Wait are not modelled).

import (
	"fmt"
	"go/token"
	"go/types"
	"sort"
	"strings"

	"golang.org/x/tools/go/ssa"
)

// symbolic names of values and lvalues, stable across repeated loads
func lsKey(v ssa.Value) string {
	switch a := v.(type) {
	case *ssa.Parameter:
		return a.Name()
	case *ssa.Alloc:
		if a.Comment != "" && a.Comment != "complit" && a.Comment != "new" && !strings.HasPrefix(a.Comment, "varargs") {
			return "&" + a.Comment
		}
		return "&" + a.Name()
	case *ssa.FreeVar:
		return "&" + a.Name()
	case *ssa.UnOp:
		if a.Op == token.MUL {
			return lsDeref(lsKey(a.X))
		}
	case *ssa.FieldAddr:
		return "&" + lsDeref(lsKey(a.X)) + "." + structFieldName(a)
	case *ssa.IndexAddr:
		return "&" + lsDeref(lsKey(a.X)) + "[" + lsKey(a.Index) + "]"
	case *ssa.Const:
		return a.String()
	case *ssa.ChangeType:
		return lsKey(a.X)
	case *ssa.Global:
		return "&" + a.Name()
	}
	return v.Name()
}

func lsDeref(k string) string {
	if strings.HasPrefix(k, "&") {
		return k[1:]
	}
	return "*" + k
}

func isMutexCall(cc *ssa.CallCommon, method string) bool {
	n := calleeName(cc)
	return n == "(*sync.Mutex)."+method || n == "(*sync.RWMutex)."+method
}

type lockset map[string]bool

func (l lockset) clone() lockset {
	o := lockset{}
	for k := range l {
		o[k] = true
	}
	return o
}

func meet(a, b lockset) lockset {
	if a == nil {
		return b.clone()
	}
	o := lockset{}
	for k := range a {
		if b[k] {
			o[k] = true
		}
	}
	return o
}

func (l lockset) String() string {
	var ks []string
	for k := range l {
		ks = append(ks, k)
	}
	sort.Strings(ks)
	return "{" + strings.Join(ks, ", ") + "}"
}

// locksBefore computes the must-hold lockset before every instruction of fn,
// starting from entry. Deferred unlocks release at return and are ignored.
func locksBefore(fn *ssa.Function, entry lockset) map[ssa.Instruction]lockset {
	in := map[*ssa.BasicBlock]lockset{}
	out := map[ssa.Instruction]lockset{}
	if len(fn.Blocks) == 0 {
		return out
	}
	in[fn.Blocks[0]] = entry.clone()
	work := []*ssa.BasicBlock{fn.Blocks[0]}
	for len(work) > 0 {
		b := work[0]
		work = work[1:]
		cur := in[b].clone()
		for _, ins := range b.Instrs {
			out[ins] = cur.clone()
			if c, ok := ins.(*ssa.Call); ok && len(c.Call.Args) > 0 {
				switch {
				case isMutexCall(&c.Call, "Lock"), isMutexCall(&c.Call, "RLock"):
					cur[lsDeref(lsKey(c.Call.Args[0]))] = true
				case isMutexCall(&c.Call, "Unlock"), isMutexCall(&c.Call, "RUnlock"):
					delete(cur, lsDeref(lsKey(c.Call.Args[0])))
				}
			}
		}
		for _, s := range b.Succs {
			old, seen := in[s]
			var nw lockset
			if !seen {
				nw = cur.clone()
			} else {
				nw = meet(old, cur)
			}
			if !seen || len(nw) != len(old) {
				in[s] = nw
				work = append(work, s)
			}
		}
	}
	return out
}

func srcLine(w *World, fn *ssa.Function, pos token.Pos) string {
	if !pos.IsValid() {
		return "?"
	}
	p := fn.Prog.Fset.Position(pos)
	if l := strings.TrimSpace(w.sourceLine(p.Filename, p.Line)); l != "" {
		return l
	}
	return fmt.Sprintf("line %d", p.Line)
}

func insPos(ins ssa.Instruction) token.Pos {
	if ins.Pos().IsValid() {
		return ins.Pos()
	}
	// field addresses often carry no position: use the first positioned referrer
	if v, ok := ins.(ssa.Value); ok && v.Referrers() != nil {
		for _, r := range *v.Referrers() {
			if r.Pos().IsValid() {
				return r.Pos()
			}
		}
	}
	return token.NoPos
}

type guardSpec struct {
	typ    *types.Named
	fields map[string]bool
	lock   string
	cl     *GuardClause
}

func (w *World) lookupNamed(pkgPath, name string) *types.Named {
	if i := strings.Index(name, "."); i >= 0 {
		for pp, sp := range w.spkgs {
			if sp.Pkg.Name() == name[:i] && strings.HasPrefix(pp, repoMod) {
				if o := sp.Pkg.Scope().Lookup(name[i+1:]); o != nil {
					n, _ := o.Type().(*types.Named)
					return n
				}
			}
		}
		return nil
	}
	if sp := w.spkgs[pkgPath]; sp != nil {
		if o := sp.Pkg.Scope().Lookup(name); o != nil {
			n, _ := o.Type().(*types.Named)
			return n
		}
	}
	return nil
}

func namedOfPtr(t types.Type) *types.Named {
	if p, ok := t.Underlying().(*types.Pointer); ok {
		n, _ := p.Elem().(*types.Named)
		return n
	}
	return nil
}

// rootOf strips field/index addressing and loads down to the variable an
// lvalue hangs off.
func rootOf(v ssa.Value) ssa.Value {
	for {
		switch a := v.(type) {
		case *ssa.FieldAddr:
			v = a.X
		case *ssa.IndexAddr:
			v = a.X
		case *ssa.UnOp:
			if a.Op != token.MUL {
				return v
			}
			v = a.X
		case *ssa.ChangeType:
			v = a.X
		default:
			return v
		}
	}
}

func flowLocksets(prop string) func(w *World) []*Obligation {
	return func(w *World) []*Obligation {
		var (
			obls   []*Obligation
			guards []guardSpec
			held   = map[*ssa.Function]string{} // function -> parameter whose lock is held at entry
			gor    = map[*ssa.Function]*GuardClause{}
		)
		bad := func(name, why string) {
			obls = append(obls, flowObl(prop, name, "ownership clause resolves", false, why))
		}
		var pkgPaths []string
		for pp := range w.files {
			pkgPaths = append(pkgPaths, pp)
		}
		sort.Strings(pkgPaths)
		for _, pp := range pkgPaths {
			for _, g := range w.files[pp].Guards {
				if !hasProp(g.Props, prop) {
					continue
				}
				rel := strings.TrimPrefix(pp, repoMod+"/")
				switch g.Kind {
				case "guarded":
					n := w.lookupNamed(pp, g.Type)
					if n == nil {
						bad(rel+":guarded["+g.Type+"]", "type not found")
						continue
					}
					st, _ := n.Underlying().(*types.Struct)
					gs := guardSpec{typ: n, fields: map[string]bool{}, lock: g.Lock, cl: g}
					have := map[string]bool{}
					for i := 0; st != nil && i < st.NumFields(); i++ {
						have[st.Field(i).Name()] = true
					}
					fl := append([]string{g.Lock}, g.Fields...)
					if g.Lock == "atomic" {
						fl = g.Fields // "by atomic": the field is only touched through sync/atomic
					}
					for _, f := range fl {
						if !have[f] {
							bad(rel+":guarded["+g.Type+"."+f+"]", "no such field")
						}
					}
					for _, f := range g.Fields {
						gs.fields[f] = true
					}
					guards = append(guards, gs)
				case "nostore":
					// the function (called concurrently on shared memory) writes memory it did
					// not allocate itself only through sync/atomic: no plain store
					fn := w.findFunc(pp, g.Func)
					if fn == nil {
						bad(rel+":nostore["+g.Func+"]", "function not found")
						continue
					}
					okAll, detail := true, ""
					for _, b := range fn.Blocks {
						for _, ins := range b.Instrs {
							if s, isStore := ins.(*ssa.Store); isStore {
								if a, local := rootOf(s.Addr).(*ssa.Alloc); !local || a.Heap && a.Comment != "complit" && a.Comment != "varargs" {
									if !local {
										okAll = false
										detail += "plain store: " + srcLine(w, fn, insPos(ins)) + "\n"
									}
								}
							}
						}
					}
					obls = append(obls, flowObl(prop, rel+"."+g.Func+":nostore", g.Func+" writes shared memory only through sync/atomic (no plain store)", okAll, detail))
				case "held", "goroutines":
					fn := w.findFunc(pp, g.Func)
					if fn == nil && strings.Contains(g.Func, ".") {
						// pkg-qualified function of another repo package: eth.(*Block).Tx
						for p2, sp := range w.spkgs {
							if q, ok := strings.CutPrefix(g.Func, sp.Pkg.Name()+"."); ok && strings.HasPrefix(p2, repoMod) {
								if f := w.findFunc(p2, q); f != nil {
									fn = f
								}
							}
						}
					}
					if fn == nil {
						bad(rel+":"+g.Kind+"["+g.Func+"]", "function not found")
						continue
					}
					if g.Kind == "held" {
						ok := false
						for _, p := range fn.Params {
							ok = ok || p.Name() == g.Param
						}
						if !ok {
							bad(rel+":held["+g.Func+"]", "no parameter "+g.Param)
							continue
						}
						held[fn] = g.Param
					} else {
						gor[fn] = g
					}
				}
			}
		}
		lockFieldOf := func(n *types.Named) (string, bool) {
			for _, g := range guards {
				if types.Identical(g.typ, n) {
					return g.lock, true
				}
			}
			return "", false
		}
		guardedField := func(n *types.Named, f string) (string, bool) {
			for _, g := range guards {
				if types.Identical(g.typ, n) && g.fields[f] {
					return g.lock, true
				}
			}
			return "", false
		}
		// entry lockset of a function: the held clause, or for an inline closure
		// the lockset at its creation (captured variables keep their names)
		var analyse func(fn *ssa.Function, entry lockset, goroutine bool, top *ssa.Function)
		type access struct {
			store bool
			locks lockset
			where string
		}
		captured := map[*ssa.Function]map[string][]access{} // per goroutines-function: captured variable -> accesses inside goroutine closures
		seen := map[*ssa.Function]bool{}
		analyse = func(fn *ssa.Function, entry lockset, goroutine bool, top *ssa.Function) {
			if seen[fn] {
				return
			}
			seen[fn] = true
			fname := fn.String()
			if fn.Pkg != nil {
				fname = strings.TrimPrefix(fn.Pkg.Pkg.Path(), repoMod+"/") + "." + fn.RelString(fn.Pkg.Pkg)
			}
			before := locksBefore(fn, entry)
			for _, b := range fn.Blocks {
				for _, ins := range b.Instrs {
					ls := before[ins]
					switch i := ins.(type) {
					case *ssa.FieldAddr:
						n := namedOfPtr(i.X.Type())
						if n == nil {
							continue
						}
						f := structFieldName(i)
						lk, ok := guardedField(n, f)
						if !ok {
							continue
						}
						if _, fresh := rootOf(i.X).(*ssa.Alloc); fresh && rootIsLocalObject(rootOf(i.X).(*ssa.Alloc)) {
							continue // object under construction, not yet shared
						}
						if lk == "atomic" {
							okAll := true
							detail := ""
							if refs := i.Referrers(); refs != nil {
								for _, r := range *refs {
									if _, dbg := r.(*ssa.DebugRef); dbg {
										continue
									}
									c, isCall := r.(ssa.CallInstruction)
									if !isCall || !strings.HasPrefix(calleeName(c.Common()), "sync/atomic.") {
										okAll = false
										detail += fmt.Sprintf("used by %T (%s)\n", r, srcLine(w, fn, r.Pos()))
									}
								}
							}
							name := fmt.Sprintf("%s:atomic[%s.%s]:%s", fname, n.Obj().Name(), f, srcLine(w, fn, insPos(ins)))
							obls = append(obls, flowObl(prop, name, fmt.Sprintf("%s.%s is only touched through sync/atomic", n.Obj().Name(), f), okAll, detail))
							continue
						}
						need := lsDeref(lsKey(i.X)) + "." + lk
						name := fmt.Sprintf("%s:guarded[%s.%s]:%s", fname, n.Obj().Name(), f, srcLine(w, fn, insPos(ins)))
						obls = append(obls, flowObl(prop, name,
							fmt.Sprintf("%s.%s is touched only while %s is held", n.Obj().Name(), f, need),
							ls[need], fmt.Sprintf("locks held here: %s; needed: %s", ls, need)))
					case *ssa.Call, *ssa.Go, *ssa.Defer:
						cc := ins.(ssa.CallInstruction).Common()
						var callee *ssa.Function
						switch f := cc.Value.(type) {
						case *ssa.Function:
							callee = f
						case *ssa.MakeClosure:
							callee, _ = f.Fn.(*ssa.Function)
						}
						if callee != nil {
							if p, ok := held[callee]; ok {
								idx := -1
								for k, q := range callee.Params {
									if q.Name() == p {
										idx = k
									}
								}
								if idx >= 0 && idx < len(cc.Args) {
									if n := namedOfPtr(cc.Args[idx].Type()); n != nil {
										if lk, ok := lockFieldOf(n); ok {
											need := lsDeref(lsKey(cc.Args[idx])) + "." + lk
											name := fmt.Sprintf("%s:held[%s]:%s", fname, callee.RelString(callee.Pkg.Pkg), srcLine(w, fn, insPos(ins)))
											_, isDefer := ins.(*ssa.Defer)
											obls = append(obls, flowObl(prop, name,
												fmt.Sprintf("%s requires %s held by its caller", callee.RelString(callee.Pkg.Pkg), need),
												ls[need] && !isDefer, fmt.Sprintf("locks held here: %s; needed: %s", ls, need)))
										}
									}
								}
							}
						}
						// closures: started as goroutines or run inline
						for _, a := range cc.Args {
							if mc, ok := a.(*ssa.MakeClosure); ok {
								cf := mc.Fn.(*ssa.Function)
								isGo := strings.HasSuffix(calleeName(cc), "errgroup.Group).Go")
								if isGo {
									analyse(cf, lockset{}, true, top)
								} else {
									analyse(cf, ls, goroutine, top)
								}
							}
						}
						if g, ok := ins.(*ssa.Go); ok {
							if mc, ok := g.Call.Value.(*ssa.MakeClosure); ok {
								analyse(mc.Fn.(*ssa.Function), lockset{}, true, top)
							}
						}
					case *ssa.Store:
						if goroutine && top != nil {
							if fv, ok := rootOf(i.Addr).(*ssa.FreeVar); ok {
								if captured[top] == nil {
									captured[top] = map[string][]access{}
								}
								captured[top][fv.Name()] = append(captured[top][fv.Name()], access{true, ls, srcLine(w, fn, insPos(ins))})
							}
						}
					case *ssa.UnOp:
						if goroutine && top != nil && i.Op == token.MUL {
							if fv, ok := i.X.(*ssa.FreeVar); ok {
								if captured[top] == nil {
									captured[top] = map[string][]access{}
								}
								captured[top][fv.Name()] = append(captured[top][fv.Name()], access{false, ls, srcLine(w, fn, insPos(ins))})
							}
						}
					}
				}
			}
			// anonymous functions not reached through a call argument above (stored, deferred...)
			for _, af := range fn.AnonFuncs {
				if !seen[af] {
					analyse(af, lockset{}, goroutine, top)
				}
			}
		}
		// every function of every repo package
		var sps []string
		for pp := range w.spkgs {
			if strings.HasPrefix(pp, repoMod) {
				sps = append(sps, pp)
			}
		}
		sort.Strings(sps)
		for _, pp := range sps {
			fns := allFuncs(w.spkgs[pp])
			var names []string
			for n, f := range fns {
				if f.Parent() == nil {
					names = append(names, n)
				}
			}
			sort.Strings(names)
			for _, n := range names {
				fn := fns[n]
				entry := lockset{}
				if p, ok := held[fn]; ok {
					for _, q := range fn.Params {
						if q.Name() == p {
							if nm := namedOfPtr(q.Type()); nm != nil {
								if lk, ok := lockFieldOf(nm); ok {
									entry[lsDeref(lsKey(q))+"."+lk] = true
								}
							}
						}
					}
				}
				var top *ssa.Function
				if _, ok := gor[fn]; ok {
					top = fn
				}
				analyse(fn, entry, false, top)
			}
		}
		// captured variables of goroutine closures: one common lock over all
		// accesses of every variable that some goroutine writes
		var tops []*ssa.Function
		for fn := range gor {
			tops = append(tops, fn)
		}
		sort.Slice(tops, func(i, j int) bool { return tops[i].String() < tops[j].String() })
		for _, fn := range tops {
			fname := strings.TrimPrefix(fn.Pkg.Pkg.Path(), repoMod+"/") + "." + fn.RelString(fn.Pkg.Pkg)
			vars := captured[fn]
			var vs []string
			for v := range vars {
				vs = append(vs, v)
			}
			sort.Strings(vs)
			n := 0
			for _, v := range vs {
				written := false
				var common lockset
				detail := ""
				for _, a := range vars[v] {
					written = written || a.store
					common = meet(common, a.locks)
					detail += fmt.Sprintf("  %s store=%v locks=%s\n", a.where, a.store, a.locks)
				}
				if !written {
					continue
				}
				n++
				obls = append(obls, flowObl(prop, fmt.Sprintf("%s:goroutines[%s]", fname, v),
					fmt.Sprintf("captured variable %s is written by a goroutine closure: every access inside the goroutines holds one common lock", v),
					len(common) > 0, "accesses:\n"+detail))
			}
			obls = append(obls, flowObl(prop, fname+":goroutines:scanned", fmt.Sprintf("goroutine closures of %s scanned (%d captured variables written)", fname, n), true, ""))
		}
		return obls
	}
}

// an Alloc whose address has not been stored anywhere or passed to a call
// before use is still private to the function; here: composite literals and
// new(T) that the function itself creates.
func rootIsLocalObject(a *ssa.Alloc) bool {
	if a.Comment == "complit" || a.Comment == "new" || !a.Heap {
		return true
	}
	// a local variable stays private unless a closure captures it or its
	// address is stored (passing it to a decoder does not retain it: assumed)
	for _, r := range *a.Referrers() {
		switch u := r.(type) {
		case *ssa.MakeClosure:
			return false
		case *ssa.Store:
			if u.Val == ssa.Value(a) {
				return false
			}
		}
	}
	return true
}

func init() {
	flowChecks["C18"] = append(flowChecks["C18"], flowLocksets("C18"))
}
