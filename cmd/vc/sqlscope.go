package main

// C04: statements on the cursor table that are not bound to one pair by
// parameters. Every SQL text constant of the repository that modifies
// shovel.task_updates must either bind src_name and ig_name to parameters
// (those statements are checked against the task's own names by the sql-pair
// obligations of the functions under contract) or treat the (src_name,
// ig_name) pair as the unit everywhere it groups or compares rows: every
// `partition by`, `group by`, `distinct on` list and every row-value used
// with [not] in must name both columns. Back end "flow" (a check on the
// parsed statement text).

import (
	"fmt"
	"go/constant"
	"regexp"
	"sort"
	"strings"

	"golang.org/x/tools/go/ssa"
)

var (
	sqlBoundRe  = regexp.MustCompile(`src_name\s*=\s*\$\d+[\s\S]*ig_name\s*=\s*\$\d+|ig_name\s*=\s*\$\d+[\s\S]*src_name\s*=\s*\$\d+`)
	sqlGroupRe  = regexp.MustCompile(`(partition by|group by|distinct on\s*\()([^()]*?)(\)|order by|having|$)`)
	sqlTupleRe  = regexp.MustCompile(`\(([a-z_,\s]+)\)\s+(not\s+)?in\b`)
	sqlInsertRe = regexp.MustCompile(`insert into shovel\.task_updates\s*\(([^)]*)\)`)
)

func hasBothNames(list string) bool {
	var src, ig bool
	for _, f := range strings.FieldsFunc(list, func(r rune) bool { return r == ',' || r == ' ' || r == '\n' || r == '\t' }) {
		src = src || f == "src_name"
		ig = ig || f == "ig_name"
	}
	return src && ig
}

func flowSQLScope(prop string) func(w *World) []*Obligation {
	return func(w *World) []*Obligation { return sqlScope(w, prop) }
}

func sqlScope(w *World, prop string) []*Obligation {
	var obls []*Obligation
	var pps []string
	for pp := range w.spkgs {
		if strings.HasPrefix(pp, repoMod) {
			pps = append(pps, pp)
		}
	}
	sort.Strings(pps)
	n := 0
	for _, pp := range pps {
		for _, fn := range allFuncs(w.spkgs[pp]) {
			seen := map[string]bool{}
			for _, b := range fn.Blocks {
				for _, ins := range b.Instrs {
					var ops []*ssa.Value
					for _, o := range ins.Operands(ops) {
						c, ok := (*o).(*ssa.Const)
						if !ok || c.Value == nil || c.Value.Kind() != constant.String {
							continue
						}
						text := strings.ToLower(constant.StringVal(c.Value))
						if seen[text] || !strings.Contains(text, "shovel.task_updates") {
							continue
						}
						seen[text] = true
						flat := strings.Join(strings.Fields(text), " ")
						if !(strings.HasPrefix(flat, "delete") || strings.HasPrefix(flat, "update") || strings.HasPrefix(flat, "insert") || strings.Contains(flat, " delete from shovel.task_updates") || strings.Contains(flat, " update shovel.task_updates")) {
							continue // reading statements do not change another pair's records
						}
						n++
						fname := strings.TrimPrefix(pp, repoMod+"/") + "." + fn.RelString(fn.Pkg.Pkg)
						ok2, detail := true, ""
						switch {
						case sqlBoundRe.MatchString(flat):
							// bound to one pair by parameters
						case sqlInsertRe.MatchString(flat):
							if !hasBothNames(sqlInsertRe.FindStringSubmatch(flat)[1]) {
								ok2, detail = false, "insert without src_name and ig_name columns"
							}
						default:
							groups := 0
							for _, m := range sqlGroupRe.FindAllStringSubmatch(flat, -1) {
								groups++
								if !hasBothNames(m[2]) {
									ok2 = false
									detail += fmt.Sprintf("%s %s does not name both src_name and ig_name\n", m[1], strings.TrimSpace(m[2]))
								}
							}
							for _, m := range sqlTupleRe.FindAllStringSubmatch(flat, -1) {
								groups++
								if !hasBothNames(m[1]) {
									ok2 = false
									detail += fmt.Sprintf("row value (%s) does not name both src_name and ig_name\n", strings.TrimSpace(m[1]))
								}
							}
							if groups == 0 {
								ok2, detail = false, "the statement neither binds src_name and ig_name to parameters nor groups by the pair"
							}
						}
						obls = append(obls, flowObl(prop, fmt.Sprintf("%s:sql-scope#%d", fname, len(seen)), "a statement modifying shovel.task_updates acts on one (src_name, ig_name) pair, or on every pair separately", ok2, detail+"statement: "+flat))
					}
				}
			}
		}
	}
	if n == 0 {
		obls = append(obls, flowObl(prop, "sql-scope:none", "statements modifying shovel.task_updates found", false, "no such statement found in the repository: the check no longer sees the SQL text"))
	}
	return obls
}

func init() {
	// C04: one pair's statements never touch another pair's records; C06: the
	// position a task resumes from is not removed by a statement meant for others
	flowChecks["C04"] = append(flowChecks["C04"], flowSQLScope("C04"))
	flowChecks["C06"] = append(flowChecks["C06"], flowSQLScope("C06"))
}
