package main

// Mapping of Go types to SMT sorts, zero values and type invariants.

import (
	"fmt"
	"go/types"
	"os"
	"strings"
)

const preamble = `
(declare-datatypes ((Slice 0)) (((mk_slice (sbase Int) (soff (_ BitVec 64)) (slen (_ BitVec 64)) (scap (_ BitVec 64))))))
(declare-datatypes ((Ptr 0)) (((pnil) (pelem (pbase Int) (pidx (_ BitVec 64))) (pfield (pparent Ptr) (pfld Int)))))
(declare-sort Str 0)
(declare-fun gs.len (Str) (_ BitVec 64))
(declare-fun gs.at (Str (_ BitVec 64)) (_ BitVec 8))
(declare-sort Box 0)
(declare-datatypes ((Iface 0)) (((inil) (ival (itag Int) (ibox Box)))))
(declare-sort Fn 0)
(declare-const fn_nil Fn)
(declare-sort F64 0)
(declare-const f64_zero F64)
(declare-fun wraps (Iface Iface) Bool)
`

func (x *Exec) sortOf(t types.Type) Sort {
	switch u := t.(type) {
	case *types.Named:
		if st, ok := u.Underlying().(*types.Struct); ok {
			return x.structSort(typeKey(u), st)
		}
		return x.sortOf(u.Underlying())
	case *types.Alias:
		return x.sortOf(types.Unalias(u))
	case *types.Basic:
		switch {
		case u.Info()&types.IsBoolean != 0:
			return SBool
		case u.Info()&types.IsInteger != 0:
			return BVSort(intWidth(u))
		case u.Info()&types.IsString != 0:
			return SStr
		case u.Info()&types.IsFloat != 0, u.Info()&types.IsComplex != 0:
			return "F64"
		case u.Kind() == types.UnsafePointer:
			return SInt
		case u.Kind() == types.UntypedNil:
			return SPtr
		}
	case *types.Pointer:
		return SPtr
	case *types.Slice:
		return SSlice
	case *types.Array:
		return ArraySort(SBV64, x.sortOf(u.Elem()))
	case *types.Map, *types.Chan:
		return SInt
	case *types.Signature:
		return "Fn"
	case *types.Interface:
		return SIface
	case *types.Struct:
		return x.structSort("anon_"+hashStr(u.String()), u)
	case *types.TypeParam:
		return SIface
	}
	panic(fmt.Sprintf("sortOf: unsupported type %s (%T)", t, t))
}

func intWidth(b *types.Basic) int {
	switch b.Kind() {
	case types.Int8, types.Uint8:
		return 8
	case types.Int16, types.Uint16:
		return 16
	case types.Int32, types.Uint32:
		return 32
	case types.UntypedRune:
		return 32
	}
	return 64
}

func isSigned(t types.Type) bool {
	b, ok := t.Underlying().(*types.Basic)
	if !ok {
		return false
	}
	return b.Info()&types.IsInteger != 0 && b.Info()&types.IsUnsigned == 0
}

func isInteger(t types.Type) bool {
	b, ok := t.Underlying().(*types.Basic)
	return ok && b.Info()&types.IsInteger != 0
}

func isString(t types.Type) bool {
	b, ok := t.Underlying().(*types.Basic)
	return ok && b.Info()&types.IsString != 0
}

func isBool(t types.Type) bool {
	b, ok := t.Underlying().(*types.Basic)
	return ok && b.Info()&types.IsBoolean != 0
}

func typeKey(n *types.Named) string {
	s := n.String()
	if n.Obj() != nil && n.Obj().Pkg() != nil {
		s = n.Obj().Pkg().Path() + "." + n.Obj().Name()
		if ta := n.TypeArgs(); ta != nil && ta.Len() > 0 {
			s += "[" + hashStr(n.String()) + "]"
		}
	}
	s = strings.TrimPrefix(s, "github.com/indexsupply/shovel/")
	return s
}

func hashStr(s string) string {
	var h uint32 = 2166136261
	for i := 0; i < len(s); i++ {
		h ^= uint32(s[i])
		h *= 16777619
	}
	return fmt.Sprintf("%08x", h)
}

type structInfo struct {
	sort  Sort
	ctor  string
	sels  []string
	ftype []types.Type
	names []string
}

func (x *Exec) structSort(key string, st *types.Struct) Sort {
	if si, ok := x.structs[key]; ok {
		return si.sort
	}
	name := "S_" + mangleIdent(key)
	si := &structInfo{sort: Sort(name), ctor: "mk_" + name}
	x.structs[key] = si
	x.structBySort[si.sort] = si
	var fields []string
	for i := 0; i < st.NumFields(); i++ {
		f := st.Field(i)
		fs := x.sortOf(f.Type())
		sel := fmt.Sprintf("f%d_%s_%s", i, name, mangleIdent(f.Name()))
		si.sels = append(si.sels, sel)
		si.ftype = append(si.ftype, f.Type())
		si.names = append(si.names, f.Name())
		fields = append(fields, fmt.Sprintf("(%s %s)", sel, fs))
	}
	if len(fields) == 0 {
		x.sc.Decl("sort:"+name, fmt.Sprintf("(declare-datatypes ((%s 0)) (((%s))))", name, si.ctor))
	} else {
		x.sc.Decl("sort:"+name, fmt.Sprintf("(declare-datatypes ((%s 0)) (((%s %s))))", name, si.ctor, strings.Join(fields, " ")))
	}
	return si.sort
}

func mangleIdent(s string) string {
	var b strings.Builder
	for _, c := range s {
		switch {
		case c >= 'a' && c <= 'z', c >= 'A' && c <= 'Z', c >= '0' && c <= '9', c == '_':
			b.WriteRune(c)
		default:
			b.WriteRune('_')
		}
	}
	return b.String()
}

func (x *Exec) structInfoOf(t types.Type) *structInfo {
	s := x.sortOf(t)
	si := x.structBySort[s]
	if si == nil {
		panic("not a struct sort: " + string(s) + " for " + t.String())
	}
	return si
}

func (x *Exec) fieldGet(v Term, t types.Type, i int) Term {
	si := x.structInfoOf(t)
	return App(x.sortOf(si.ftype[i]), si.sels[i], v)
}

func (x *Exec) fieldSet(v Term, t types.Type, i int, nv Term) Term {
	si := x.structInfoOf(t)
	args := make([]Term, len(si.sels))
	for k := range si.sels {
		if k == i {
			args[k] = nv
		} else {
			args[k] = App(x.sortOf(si.ftype[k]), si.sels[k], v)
		}
	}
	return App(si.sort, si.ctor, args...)
}

func (x *Exec) zeroOf(t types.Type) Term {
	s := x.sortOf(t)
	switch u := t.Underlying().(type) {
	case *types.Basic:
		switch {
		case u.Info()&types.IsBoolean != 0:
			return TFalse
		case u.Info()&types.IsInteger != 0:
			return BVConst(0, intWidth(u))
		case u.Info()&types.IsString != 0:
			return x.strLit("")
		case u.Kind() == types.UnsafePointer:
			return IntConst(0)
		case u.Kind() == types.UntypedNil:
			return Term{"pnil", SPtr}
		default:
			return Term{"f64_zero", "F64"}
		}
	case *types.Pointer:
		return Term{"pnil", SPtr}
	case *types.Slice:
		return nilSlice
	case *types.Array:
		return x.constArray(s, x.zeroOf(u.Elem()))
	case *types.Map, *types.Chan:
		return IntConst(0)
	case *types.Signature:
		return Term{"fn_nil", "Fn"}
	case *types.Interface:
		return Term{"inil", SIface}
	case *types.Struct:
		si := x.structBySort[s]
		args := make([]Term, len(si.sels))
		for i := range si.sels {
			args[i] = x.zeroOf(si.ftype[i])
		}
		return App(s, si.ctor, args...)
	}
	panic("zeroOf: " + t.String())
}

var nilSlice = Term{"(mk_slice 0 #x0000000000000000 #x0000000000000000 #x0000000000000000)", SSlice}

func sBase(s Term) Term { return App(SInt, "sbase", s) }
func sOff(s Term) Term  { return App(SBV64, "soff", s) }
func sLen(s Term) Term  { return App(SBV64, "slen", s) }
func sCap(s Term) Term  { return App(SBV64, "scap", s) }
func mkSlice(base, off, ln, cp Term) Term {
	return App(SSlice, "mk_slice", base, off, ln, cp)
}

func bv64(v uint64) Term { return BVConst(v, 64) }

const maxLen = uint64(1) << 47

// typeInv returns the runtime's representation invariant for a value of Go
// type t (slice header sanity, string length, pointer shape).
func (x *Exec) typeInv(v Term, t types.Type, st *State, depth int) Term {
	switch u := t.Underlying().(type) {
	case *types.Slice:
		ln, cp, off, base := sLen(v), sCap(v), sOff(v), sBase(v)
		return And(
			App(SBool, "bvsle", bv64(0), ln),
			App(SBool, "bvsle", ln, cp),
			App(SBool, "bvult", cp, bv64(maxLen)),
			App(SBool, "bvult", off, bv64(maxLen)),
			App(SBool, ">=", base, IntConst(0)),
			Implies(Eq(base, IntConst(0)), And(Eq(cp, bv64(0)), Eq(off, bv64(0)))),
			Select(st.alloc, base),
		)
	case *types.Basic:
		if u.Info()&types.IsString != 0 {
			ln := App(SBV64, "gs.len", v)
			return App(SBool, "bvult", ln, bv64(maxLen))
		}
	case *types.Pointer:
		return Or(Eq(v, Term{"pnil", SPtr}),
			And(App(SBool, "(_ is pelem)", v), App(SBool, ">", App(SInt, "pbase", v), IntConst(0)), Select(st.alloc, App(SInt, "pbase", v))))
	case *types.Map, *types.Chan:
		return And(App(SBool, ">=", v, IntConst(0)), Select(st.alloc, v))
	case *types.Struct:
		if depth <= 0 {
			return TTrue
		}
		if os.Getenv("VC_EAGER_TYPEINV") == "" {
			if p := x.structInvPred(t, u, depth); p != "" {
				return App(SBool, p, v, st.alloc)
			}
		}
		var cs []Term
		for i := 0; i < u.NumFields(); i++ {
			ft := u.Field(i).Type()
			switch ft.Underlying().(type) {
			case *types.Slice, *types.Pointer, *types.Struct, *types.Map:
				cs = append(cs, x.typeInv(x.fieldGet(v, t, i), ft, st, depth-1))
			case *types.Basic:
				if isString(ft) {
					cs = append(cs, x.typeInv(x.fieldGet(v, t, i), ft, st, depth-1))
				}
			}
		}
		return And(cs...)
	}
	return TTrue
}

const gsOfDecl = `(declare-fun gs.of ((Array (_ BitVec 64) (_ BitVec 8)) (_ BitVec 64) (_ BitVec 64)) Str)
(assert (forall ((a (Array (_ BitVec 64) (_ BitVec 8))) (o (_ BitVec 64)) (n (_ BitVec 64))) (! (= (gs.len (gs.of a o n)) n) :pattern ((gs.of a o n)))))
(assert (forall ((a (Array (_ BitVec 64) (_ BitVec 8))) (o (_ BitVec 64)) (n (_ BitVec 64)) (i (_ BitVec 64))) (! (= (gs.at (gs.of a o n) i) (select a (bvadd o i))) :pattern ((gs.at (gs.of a o n) i)))))`

const gsSubDecl = `(declare-fun gs.sub (Str (_ BitVec 64) (_ BitVec 64)) Str)
(assert (forall ((s Str) (lo (_ BitVec 64)) (hi (_ BitVec 64))) (! (= (gs.len (gs.sub s lo hi)) (bvsub hi lo)) :pattern ((gs.sub s lo hi)))))
(assert (forall ((s Str) (lo (_ BitVec 64)) (hi (_ BitVec 64)) (i (_ BitVec 64))) (! (= (gs.at (gs.sub s lo hi) i) (gs.at s (bvadd lo i))) :pattern ((gs.at (gs.sub s lo hi) i)))))`

func (x *Exec) useGsOf()  { x.sc.Decl("gs.of", gsOfDecl) }
func (x *Exec) useGsSub() { x.sc.Decl("gs.sub", gsSubDecl) }

// strLit returns the constant for a string literal and declares its axioms.
func (x *Exec) strLit(s string) Term {
	if t, ok := x.strLits[s]; ok {
		return t
	}
	name := fmt.Sprintf("strlit_%d_%s", len(x.strLits), mangleIdent(truncate(s, 16)))
	t := Term{name, SStr}
	x.strLits[s] = t
	x.strLitOrder = append(x.strLitOrder, s)
	var b strings.Builder
	fmt.Fprintf(&b, "(declare-const %s Str)\n(assert (= (gs.len %s) %s))", name, name, bv64(uint64(len(s))).S)
	if len(s) <= 64 {
		for i := 0; i < len(s); i++ {
			fmt.Fprintf(&b, "\n(assert (= (gs.at %s %s) %s))", name, bv64(uint64(i)).S, BVConst(uint64(s[i]), 8).S)
		}
	}
	x.sc.Decl("strlit:"+s, b.String())
	return t
}

func truncate(s string, n int) string {
	if len(s) > n {
		return s[:n]
	}
	return s
}

// strDistinctDecl is emitted at query time: all literals are pairwise distinct.
func (x *Exec) strDistinctDecl() string {
	if len(x.strLitOrder) < 2 {
		return ""
	}
	var names []string
	for _, s := range x.strLitOrder {
		names = append(names, x.strLits[s].S)
	}
	return "(assert (distinct " + strings.Join(names, " ") + "))"
}

// typeTag returns a positive integer identifying a concrete dynamic type.
func (x *Exec) typeTag(t types.Type) int {
	k := types.TypeString(t, nil)
	if id, ok := x.typeTags[k]; ok {
		return id
	}
	id := len(x.typeTags) + 1
	x.typeTags[k] = id
	return id
}

// box/unbox functions for interface payloads, one pair per sort.
func (x *Exec) boxFn(s Sort) (string, string) {
	m := s.Mangle()
	bf, uf := "box_"+m, "unbox_"+m
	x.sc.Decl("box:"+m, fmt.Sprintf("(declare-fun %s (%s) Box)\n(declare-fun %s (Box) %s)\n(assert (forall ((v %s)) (! (= (%s (%s v)) v) :pattern ((%s v)))))", bf, s, uf, s, s, uf, bf, bf))
	return bf, uf
}

// constArray: the array whose every element is v. (as const ...) needs a
// value (cvc5 rejects uninterpreted constants such as string literals inside
// it), so non-value elements get a named array with a defining axiom.
func (x *Exec) constArray(arrSort Sort, v Term) Term {
	if !strings.Contains(v.S, "strlit_") && !strings.Contains(v.S, "f64_zero") && !strings.Contains(v.S, "fn_nil") {
		return Term{fmt.Sprintf("((as const %s) %s)", arrSort, v.S), arrSort}
	}
	name := "constarr_" + hashStr(string(arrSort)+v.S)
	idx := arrayIdxSort(arrSort)
	x.sc.Decl("constarr:"+name, fmt.Sprintf("(declare-const %s %s)\n(assert (forall ((i %s)) (! (= (select %s i) %s) :pattern ((select %s i)))))", name, arrSort, idx, name, v.S, name))
	return Term{name, arrSort}
}

// structInvPred: the representation invariant of a struct with many fields is
// stated lazily: an uninterpreted predicate tinv_T_d(v, alloc) with one
// triggered axiom per field (pattern: the predicate and the field selector
// applied to the same value), so that only the fields a proof talks about are
// unfolded. Returns "" for small structs (stated inline).
func (x *Exec) structInvPred(t types.Type, u *types.Struct, depth int) string {
	n := 0
	for i := 0; i < u.NumFields(); i++ {
		ft := u.Field(i).Type()
		switch ft.Underlying().(type) {
		case *types.Slice, *types.Pointer, *types.Struct, *types.Map:
			n++
		case *types.Basic:
			if isString(ft) {
				n++
			}
		}
	}
	if n < 3 {
		return ""
	}
	srt := x.sortOf(t)
	name := fmt.Sprintf("tinv_%s_%d", mangleIdent(string(srt)), depth)
	key := "tinv:" + name
	if x.tinvDone == nil {
		x.tinvDone = map[string]bool{}
	}
	if x.tinvDone[key] {
		return name
	}
	x.tinvDone[key] = true
	allocSort := Sort("(Array Int Bool)")
	x.sc.Decl(key, fmt.Sprintf("(declare-fun %s (%s %s) Bool)", name, srt, allocSort))
	pst := &State{alloc: Term{"a", allocSort}}
	v := Term{"v", srt}
	for i := 0; i < u.NumFields(); i++ {
		ft := u.Field(i).Type()
		var body Term
		switch ft.Underlying().(type) {
		case *types.Slice, *types.Pointer, *types.Struct, *types.Map:
			body = x.typeInv(x.fieldGet(v, t, i), ft, pst, depth-1)
		case *types.Basic:
			if isString(ft) {
				body = x.typeInv(x.fieldGet(v, t, i), ft, pst, depth-1)
			}
		}
		if body.S == "" || body.S == "true" {
			continue
		}
		sel := x.fieldGet(v, t, i)
		x.sc.Decl(fmt.Sprintf("%s:f%d", key, i), fmt.Sprintf("(assert (forall ((v %s) (a %s)) (! (=> (%s v a) %s) :pattern ((%s v a) %s))))", srt, allocSort, name, body.S, name, sel.S))
	}
	return name
}
