package main

// Contract files: comment-only Go files (`//go:build verif`) whose `//@` lines
// hold requires/ensures/invariant clauses keyed by function and loop ordinal.

import (
	"fmt"
	"math/big"
	"os"
	"strconv"
	"strings"
)

type CExpr interface{}

type (
	CIdent struct{ Name string }
	CInt   struct{ V *big.Int }
	CStr   struct{ V string }
	CBool  struct{ V bool }
	CNil   struct{}
	CUn    struct {
		Op string
		X  CExpr
	}
	CBin struct {
		Op   string
		X, Y CExpr
	}
	CCond  struct{ C, A, B CExpr }
	CQuant struct {
		Forall  bool
		Vars    []CParam
		Body    CExpr
		Witness []CExpr // exists only: candidate witnesses offered to the prover
	}
	CCall struct {
		Fun  string
		Args []CExpr
	}
	CIndex struct{ X, I CExpr }
	CSlice struct{ X, Lo, Hi CExpr }
	CSel   struct {
		X    CExpr
		Name string
	}
	CParam    struct{ Name, Type string }
	CAnyTable struct {
		Var, Table string
		Body       CExpr
	}
	CAll struct {
		Var    string
		Lo, Hi int64
		Body   CExpr
	}
)

type Clause struct {
	Kind  string // requires ensures invariant decreases panics_if assert assume
	Loop  int    // for invariant/decreases
	Props []string
	Text  string
	Expr  CExpr
	Name  string // optional label
	Opt   string // atcall: callee name
	Line  int
	File  string
}

type FuncContract struct {
	Func    string
	Props   []string
	Clauses []*Clause
	Opts    map[string]string
	File    string
	Line    int
}

type SpecFunc struct {
	Name   string
	Params []CParam
	Ret    string
	Body   CExpr
	Text   string
	Pkg    string
	// lemma parts
	IsLemma  bool
	Opaque   bool
	Rec      bool // uninterpreted symbol; the definition is instantiated once at each use site (fuel 1)
	Requires []*Clause
	Ensures  []*Clause
	Props    []string
	Induct   string // variable to induct on (lemma)
}

type ContractFile struct {
	Pkg    string // package path
	Funcs  map[string]*FuncContract
	Specs  map[string]*SpecFunc
	Order  []string
	Guards []*GuardClause
}

// E2 ownership clauses (lockset.go):
//
//	guarded <Type>.<f1>,<f2>.. by <lockfield> [props=..]   fields of a struct type touched only while the object's own lock is held
//	held <func> <param> [props=..]                        the function requires the lock of <param> held at entry (checked at call sites)
//	goroutines <func> [props=..]                          closures started as goroutines by <func> touch captured variables only under a lock
type GuardClause struct {
	Kind   string
	Type   string // guarded: type name, possibly pkg-qualified (eth.Block)
	Fields []string
	Lock   string
	Func   string
	Param  string
	Props  []string
	File   string
	Line   int
}

func parseContractFile(path, pkgPath string) (*ContractFile, error) {
	data, err := os.ReadFile(path)
	if err != nil {
		return nil, err
	}
	cf := &ContractFile{Pkg: pkgPath, Funcs: map[string]*FuncContract{}, Specs: map[string]*SpecFunc{}}
	var (
		cur     *FuncContract
		curLem  *SpecFunc
		lastCl  *Clause
		lastSp  *SpecFunc
		lines   = strings.Split(string(data), "\n")
		reparse = func(c *Clause) error {
			e, err := parseCExpr(c.Text)
			if err != nil {
				return fmt.Errorf("%s:%d: %v in %q", path, c.Line, err, c.Text)
			}
			c.Expr = e
			return nil
		}
	)
	var pending []*Clause
	flush := func() error {
		for _, c := range pending {
			if err := reparse(c); err != nil {
				return err
			}
		}
		pending = nil
		if lastSp != nil && lastSp.Text != "" {
			e, err := parseCExpr(lastSp.Text)
			if err != nil {
				return fmt.Errorf("%s: spec %s: %v in %q", path, lastSp.Name, err, lastSp.Text)
			}
			lastSp.Body = e
		}
		lastSp = nil
		return nil
	}
	for ln, raw := range lines {
		line := strings.TrimSpace(raw)
		if !strings.HasPrefix(line, "//@") {
			continue
		}
		line = strings.TrimSpace(line[3:])
		if line == "" {
			continue
		}
		if i := strings.Index(line, " //"); i >= 0 { // trailing comment
			line = strings.TrimSpace(line[:i])
		}
		if strings.HasPrefix(line, "+") { // continuation
			t := strings.TrimSpace(line[1:])
			if lastCl != nil {
				lastCl.Text += " " + t
			} else if lastSp != nil {
				lastSp.Text += " " + t
			}
			continue
		}
		word, rest := splitWord(line)
		switch word {
		case "func":
			if err := flush(); err != nil {
				return nil, err
			}
			lastCl, curLem = nil, nil
			name, opts := splitWord(rest)
			// method names like "(*T).m" contain no spaces
			cur = &FuncContract{Func: name, Opts: map[string]string{}, File: path, Line: ln + 1}
			for _, o := range strings.Fields(opts) {
				if k, v, ok := strings.Cut(o, "="); ok {
					cur.Opts[k] = v
					if k == "props" {
						cur.Props = strings.Split(v, ",")
					}
				} else {
					cur.Opts[o] = "true"
				}
			}
			cf.Funcs[name] = cur
			cf.Order = append(cf.Order, name)
		case "spec", "lemma":
			if err := flush(); err != nil {
				return nil, err
			}
			lastCl, cur = nil, nil
			opaque, rec := false, false
			if strings.HasPrefix(rest, "opaque ") {
				opaque = true
				rest = strings.TrimSpace(rest[len("opaque "):])
			}
			if strings.HasPrefix(rest, "rec ") {
				rec = true
				rest = strings.TrimSpace(rest[len("rec "):])
			}
			sp, err := parseSpecHeader(rest, word == "lemma")
			if sp != nil {
				sp.Opaque = opaque
				sp.Rec = rec
			}
			if err != nil {
				return nil, fmt.Errorf("%s:%d: %v", path, ln+1, err)
			}
			sp.Pkg = pkgPath
			cf.Specs[sp.Name] = sp
			if word == "lemma" {
				curLem = sp
				lastSp = nil
			} else {
				lastSp = sp
				curLem = nil
			}
		case "guarded", "held", "goroutines", "public", "nostore", "before", "detached", "frozen", "apart":
			if err := flush(); err != nil {
				return nil, err
			}
			lastCl, cur, curLem = nil, nil, nil
			g := &GuardClause{Kind: word, File: path, Line: ln + 1}
			var fs []string
			for _, f := range strings.Fields(rest) {
				if v, ok := strings.CutPrefix(f, "props="); ok {
					g.Props = strings.Split(v, ",")
				} else {
					fs = append(fs, f)
				}
			}
			switch {
			case word == "guarded" && len(fs) == 3 && fs[1] == "by":
				i := strings.LastIndex(fs[0], ".")
				if i < 0 {
					return nil, fmt.Errorf("%s:%d: expected 'guarded Type.f1,f2 by lockfield'", path, ln+1)
				}
				g.Type, g.Fields, g.Lock = fs[0][:i], strings.Split(fs[0][i+1:], ","), fs[2]
			case word == "held" && len(fs) == 2:
				g.Func, g.Param = fs[0], fs[1]
			case (word == "goroutines" || word == "nostore" || word == "detached") && len(fs) == 1:
				g.Func = fs[0]
			case word == "frozen" && len(fs) == 1 && strings.Count(fs[0], ".") == 2:
				// frozen pkg.Type.field
				i := strings.LastIndex(fs[0], ".")
				g.Type, g.Fields = fs[0][:i], []string{fs[0][i+1:]}
			case (word == "before" || word == "apart") && len(fs) == 3:
				// before <func> <calleeA> <calleeB>: every call of B is dominated by a call of A
				g.Func, g.Fields = fs[0], fs[1:]
			case word == "public" && len(fs) == 2:
				// public <Type> m1,m2: handler methods that may be registered without the authentication wrapper
				g.Type, g.Fields = fs[0], strings.Split(fs[1], ",")
			default:
				return nil, fmt.Errorf("%s:%d: malformed %s clause", path, ln+1, word)
			}
			cf.Guards = append(cf.Guards, g)
		case "dyncall":
			// dyncall <param> ensures <expr> | dyncall <param> pure : assumed contract of a function-valued parameter
			callee, r2 := splitWord(rest)
			kw, r3 := splitWord(r2)
			if cur == nil || (kw != "ensures" && kw != "pure") {
				return nil, fmt.Errorf("%s:%d: expected 'dyncall <param> ensures <expr>' or 'dyncall <param> pure'", path, ln+1)
			}
			c := &Clause{Kind: "dyncall-" + kw, Name: callee, Line: ln + 1, File: path, Text: r3}
			if kw == "pure" {
				c.Text = "true"
			}
			lastCl = c
			lastSp = nil
			pending = append(pending, c)
			cur.Clauses = append(cur.Clauses, c)
		case "atcall":
			// atcall <callee> assert <expr>: obligation at every call of <callee> in this function (arg0.. = arguments)
			callee, r2 := splitWord(rest)
			kw, r3 := splitWord(r2)
			if cur == nil || kw != "assert" {
				return nil, fmt.Errorf("%s:%d: expected 'atcall <callee> assert <expr>'", path, ln+1)
			}
			c := &Clause{Kind: "atcall", Line: ln + 1, File: path}
			c.Props, c.Name, c.Text = clauseTags(r3)
			c.Opt = callee
			lastCl = c
			lastSp = nil
			pending = append(pending, c)
			cur.Clauses = append(cur.Clauses, c)
		case "after":
			// after <callee> assume <expr>: assumed call-site contract
			callee, r2 := splitWord(rest)
			kw, r3 := splitWord(r2)
			if kw != "assume" || cur == nil {
				return nil, fmt.Errorf("%s:%d: expected 'after <callee> assume <expr>'", path, ln+1)
			}
			c := &Clause{Kind: "after", Name: callee, Line: ln + 1, File: path, Text: r3}
			lastCl = c
			lastSp = nil
			pending = append(pending, c)
			cur.Clauses = append(cur.Clauses, c)
		case "unreachable":
			// unreachable <source text>: the block starting with this statement is
			// dead under the contract (defensive code); no reachability cover for it
			if cur == nil {
				return nil, fmt.Errorf("%s:%d: clause outside func", path, ln+1)
			}
			lastCl = nil
			cur.Clauses = append(cur.Clauses, &Clause{Kind: "unreachable", Text: strings.TrimSpace(rest), Line: ln + 1, File: path})
		case "requires", "ensures", "panics_if", "assume", "decreases", "induct", "props", "commit":
			if word == "props" && curLem != nil {
				curLem.Props = strings.Split(strings.TrimSpace(rest), ",")
				continue
			}
			if word == "induct" && curLem != nil {
				curLem.Induct = strings.TrimSpace(rest)
				continue
			}
			c := &Clause{Kind: word, Line: ln + 1, File: path}
			c.Props, c.Name, c.Text = clauseTags(rest)
			lastCl = c
			lastSp = nil
			pending = append(pending, c)
			switch {
			case curLem != nil && word == "requires":
				curLem.Requires = append(curLem.Requires, c)
			case curLem != nil && word == "ensures":
				curLem.Ensures = append(curLem.Ensures, c)
			case cur != nil:
				cur.Clauses = append(cur.Clauses, c)
			default:
				return nil, fmt.Errorf("%s:%d: clause outside func/lemma", path, ln+1)
			}
		default:
			if strings.HasPrefix(word, "commit#") && cur != nil {
				n, err := strconv.Atoi(word[7:])
				if err != nil {
					return nil, fmt.Errorf("%s:%d: bad commit ordinal", path, ln+1)
				}
				c := &Clause{Kind: "commit", Loop: n, Line: ln + 1, File: path}
				c.Props, c.Name, c.Text = clauseTags(rest)
				lastCl = c
				lastSp = nil
				pending = append(pending, c)
				cur.Clauses = append(cur.Clauses, c)
				continue
			}
			if strings.HasPrefix(word, "loop#") && cur != nil {
				n, err := strconv.Atoi(word[5:])
				if err != nil {
					return nil, fmt.Errorf("%s:%d: bad loop ordinal", path, ln+1)
				}
				kind, r2 := splitWord(rest)
				if kind != "invariant" && kind != "decreases" {
					return nil, fmt.Errorf("%s:%d: expected invariant/decreases", path, ln+1)
				}
				c := &Clause{Kind: kind, Loop: n, Line: ln + 1, File: path}
				c.Props, c.Name, c.Text = clauseTags(r2)
				lastCl = c
				lastSp = nil
				pending = append(pending, c)
				cur.Clauses = append(cur.Clauses, c)
				continue
			}
			return nil, fmt.Errorf("%s:%d: unknown directive %q", path, ln+1, word)
		}
	}
	if err := flush(); err != nil {
		return nil, err
	}
	return cf, nil
}

// clauseTags strips optional "@C01,C02" and "[label]" prefixes.
func clauseTags(s string) (props []string, name, text string) {
	s = strings.TrimSpace(s)
	for {
		if strings.HasPrefix(s, "@") {
			w, r := splitWord(s)
			props = strings.Split(w[1:], ",")
			s = r
			continue
		}
		if strings.HasPrefix(s, "[") {
			if i := strings.Index(s, "]"); i > 0 {
				name = s[1:i]
				s = strings.TrimSpace(s[i+1:])
				continue
			}
		}
		break
	}
	return props, name, s
}

func splitWord(s string) (string, string) {
	s = strings.TrimSpace(s)
	i := strings.IndexAny(s, " \t")
	if i < 0 {
		return s, ""
	}
	return s[:i], strings.TrimSpace(s[i+1:])
}

// "name(a T, b U) R = body"   or for lemmas "name(a T, b U)"
func parseSpecHeader(s string, lemma bool) (*SpecFunc, error) {
	i := strings.Index(s, "(")
	if i < 0 {
		return nil, fmt.Errorf("spec: missing (")
	}
	sp := &SpecFunc{Name: strings.TrimSpace(s[:i]), IsLemma: lemma}
	d, j := 0, i
	for ; j < len(s); j++ {
		if s[j] == '(' {
			d++
		}
		if s[j] == ')' {
			d--
			if d == 0 {
				break
			}
		}
	}
	if j >= len(s) {
		return nil, fmt.Errorf("spec: unbalanced parens")
	}
	params := strings.TrimSpace(s[i+1 : j])
	if params != "" {
		for _, p := range strings.Split(params, ",") {
			n, t := splitWord(p)
			if t == "" {
				return nil, fmt.Errorf("spec: param %q needs a type", p)
			}
			sp.Params = append(sp.Params, CParam{n, t})
		}
	}
	rest := strings.TrimSpace(s[j+1:])
	if lemma {
		return sp, nil
	}
	ret, body, ok := strings.Cut(rest, "=")
	if !ok {
		return nil, fmt.Errorf("spec: missing '='")
	}
	// careful: "==" inside the body; Cut at the first '=' that is a lone '='
	idx := -1
	for k := 0; k < len(rest); k++ {
		if rest[k] == '=' {
			if k+1 < len(rest) && rest[k+1] == '=' {
				k++
				continue
			}
			if k > 0 && (rest[k-1] == '!' || rest[k-1] == '<' || rest[k-1] == '>' || rest[k-1] == '=') {
				continue
			}
			idx = k
			break
		}
	}
	if idx >= 0 {
		ret, body = rest[:idx], rest[idx+1:]
	}
	sp.Ret = strings.TrimSpace(ret)
	sp.Text = strings.TrimSpace(body)
	return sp, nil
}

// ---------------------------------------------------------------------------
// expression lexer / parser

type tok struct {
	kind string // id int str char op eof
	s    string
}

func lexC(s string) ([]tok, error) {
	var out []tok
	i := 0
	for i < len(s) {
		c := s[i]
		switch {
		case c == ' ' || c == '\t':
			i++
		case isIdStart(c):
			j := i
			for j < len(s) && (isIdStart(s[j]) || (s[j] >= '0' && s[j] <= '9')) {
				j++
			}
			out = append(out, tok{"id", s[i:j]})
			i = j
		case c >= '0' && c <= '9':
			j := i
			for j < len(s) && (isIdStart(s[j]) || (s[j] >= '0' && s[j] <= '9')) {
				j++
			}
			out = append(out, tok{"int", s[i:j]})
			i = j
		case c == '"':
			j := i + 1
			for j < len(s) && s[j] != '"' {
				if s[j] == '\\' {
					j++
				}
				j++
			}
			if j >= len(s) {
				return nil, fmt.Errorf("unterminated string")
			}
			v, err := strconv.Unquote(s[i : j+1])
			if err != nil {
				return nil, err
			}
			out = append(out, tok{"str", v})
			i = j + 1
		case c == '\'':
			j := i + 1
			for j < len(s) && s[j] != '\'' {
				if s[j] == '\\' {
					j++
				}
				j++
			}
			if j >= len(s) {
				return nil, fmt.Errorf("unterminated char")
			}
			v, _, _, err := strconv.UnquoteChar(s[i+1:j], '\'')
			if err != nil {
				return nil, err
			}
			out = append(out, tok{"int", strconv.Itoa(int(v))})
			i = j + 1
		default:
			ops := []string{"<==>", "==>", "::", "..", "<<", ">>", "<=", ">=", "==", "!=", "&&", "||", "&^"}
			matched := false
			for _, op := range ops {
				if strings.HasPrefix(s[i:], op) {
					out = append(out, tok{"op", op})
					i += len(op)
					matched = true
					break
				}
			}
			if matched {
				continue
			}
			if strings.ContainsRune("+-*/%&|^!<>()[]{},.?:", rune(c)) {
				out = append(out, tok{"op", string(c)})
				i++
				continue
			}
			return nil, fmt.Errorf("unexpected character %q", c)
		}
	}
	out = append(out, tok{"eof", ""})
	return out, nil
}

func isIdStart(c byte) bool {
	return c == '_' || (c >= 'a' && c <= 'z') || (c >= 'A' && c <= 'Z')
}

type cparser struct {
	toks []tok
	p    int
}

func parseCExpr(s string) (CExpr, error) {
	toks, err := lexC(s)
	if err != nil {
		return nil, err
	}
	p := &cparser{toks: toks}
	e, err := p.expr()
	if err != nil {
		return nil, err
	}
	if p.peek().kind != "eof" {
		return nil, fmt.Errorf("unexpected %q", p.peek().s)
	}
	return e, nil
}

func (p *cparser) peek() tok { return p.toks[p.p] }
func (p *cparser) next() tok { t := p.toks[p.p]; p.p++; return t }
func (p *cparser) isOp(s string) bool {
	t := p.peek()
	return t.kind == "op" && t.s == s
}
func (p *cparser) accept(s string) bool {
	if p.isOp(s) {
		p.p++
		return true
	}
	return false
}
func (p *cparser) expect(s string) error {
	if !p.accept(s) {
		return fmt.Errorf("expected %q, got %q", s, p.peek().s)
	}
	return nil
}

func (p *cparser) expr() (CExpr, error) {
	t := p.peek()
	if t.kind == "id" && (t.s == "forall" || t.s == "exists") {
		p.next()
		var vars []CParam
		for {
			n := p.next()
			if n.kind != "id" {
				return nil, fmt.Errorf("quantifier: expected variable")
			}
			ty, err := p.typeText()
			if err != nil {
				return nil, err
			}
			vars = append(vars, CParam{n.s, ty})
			if p.accept(",") {
				continue
			}
			break
		}
		var wit []CExpr
		if p.peek().kind == "id" && p.peek().s == "witness" {
			p.next()
			for {
				w, err := p.expr()
				if err != nil {
					return nil, err
				}
				wit = append(wit, w)
				if !p.accept(",") {
					break
				}
			}
		}
		if err := p.expect("::"); err != nil {
			return nil, err
		}
		body, err := p.expr()
		if err != nil {
			return nil, err
		}
		return &CQuant{Forall: t.s == "forall", Vars: vars, Body: body, Witness: wit}, nil
	}
	if t.kind == "id" && t.s == "anytable" {
		p.next()
		n := p.next()
		if n.kind != "id" {
			return nil, fmt.Errorf("anytable: expected variable")
		}
		if in := p.next(); in.s != "in" {
			return nil, fmt.Errorf("anytable: expected 'in'")
		}
		tb := p.next()
		if tb.kind != "str" {
			return nil, fmt.Errorf("anytable: table name in quotes expected")
		}
		if err := p.expect("::"); err != nil {
			return nil, err
		}
		body, err := p.expr()
		if err != nil {
			return nil, err
		}
		return &CAnyTable{Var: n.s, Table: tb.s, Body: body}, nil
	}
	if t.kind == "id" && t.s == "all" {
		p.next()
		n := p.next()
		if n.kind != "id" {
			return nil, fmt.Errorf("all: expected variable")
		}
		if in := p.next(); in.s != "in" {
			return nil, fmt.Errorf("all: expected 'in'")
		}
		lo := p.next()
		if err := p.expect(".."); err != nil {
			return nil, err
		}
		hi := p.next()
		if lo.kind != "int" || hi.kind != "int" {
			return nil, fmt.Errorf("all: bounds must be integer literals")
		}
		if err := p.expect("::"); err != nil {
			return nil, err
		}
		body, err := p.expr()
		if err != nil {
			return nil, err
		}
		l, _ := strconv.ParseInt(lo.s, 0, 64)
		h, _ := strconv.ParseInt(hi.s, 0, 64)
		return &CAll{Var: n.s, Lo: l, Hi: h, Body: body}, nil
	}
	return p.iff()
}

// typeText reads a type up to "," or "::".
func (p *cparser) typeText() (string, error) {
	var sb strings.Builder
	for {
		t := p.peek()
		if t.kind == "eof" || (t.kind == "op" && (t.s == "," || t.s == "::")) || (t.kind == "id" && t.s == "witness" && sb.Len() > 0) {
			break
		}
		sb.WriteString(t.s)
		p.next()
	}
	if sb.Len() == 0 {
		return "", fmt.Errorf("expected type")
	}
	return sb.String(), nil
}

func (p *cparser) iff() (CExpr, error) {
	x, err := p.implies()
	if err != nil {
		return nil, err
	}
	for p.accept("<==>") {
		y, err := p.implies()
		if err != nil {
			return nil, err
		}
		x = &CBin{"<==>", x, y}
	}
	return x, nil
}

func (p *cparser) implies() (CExpr, error) {
	x, err := p.cond()
	if err != nil {
		return nil, err
	}
	if p.accept("==>") {
		// right associative; allow a quantifier on the right
		var y CExpr
		if t := p.peek(); t.kind == "id" && (t.s == "forall" || t.s == "exists" || t.s == "all" || t.s == "anytable") {
			y, err = p.expr()
		} else {
			y, err = p.implies()
		}
		if err != nil {
			return nil, err
		}
		return &CBin{"==>", x, y}, nil
	}
	return x, nil
}

func (p *cparser) cond() (CExpr, error) {
	c, err := p.binary(0)
	if err != nil {
		return nil, err
	}
	if p.accept("?") {
		a, err := p.cond()
		if err != nil {
			return nil, err
		}
		if err := p.expect(":"); err != nil {
			return nil, err
		}
		b, err := p.cond()
		if err != nil {
			return nil, err
		}
		return &CCond{c, a, b}, nil
	}
	return c, nil
}

var binPrec = []map[string]bool{
	{"||": true},
	{"&&": true},
	{"==": true, "!=": true, "<": true, "<=": true, ">": true, ">=": true},
	{"+": true, "-": true, "|": true, "^": true},
	{"*": true, "/": true, "%": true, "<<": true, ">>": true, "&": true, "&^": true},
}

func (p *cparser) binary(level int) (CExpr, error) {
	if level >= len(binPrec) {
		return p.unary()
	}
	x, err := p.binary(level + 1)
	if err != nil {
		return nil, err
	}
	for {
		t := p.peek()
		if t.kind != "op" || !binPrec[level][t.s] {
			return x, nil
		}
		p.next()
		y, err := p.binary(level + 1)
		if err != nil {
			return nil, err
		}
		x = &CBin{t.s, x, y}
	}
}

func (p *cparser) unary() (CExpr, error) {
	t := p.peek()
	if t.kind == "op" && (t.s == "!" || t.s == "-" || t.s == "*" || t.s == "^") {
		p.next()
		x, err := p.unary()
		if err != nil {
			return nil, err
		}
		return &CUn{t.s, x}, nil
	}
	return p.postfix()
}

func (p *cparser) postfix() (CExpr, error) {
	x, err := p.primary()
	if err != nil {
		return nil, err
	}
	for {
		switch {
		case p.accept("."):
			n := p.next()
			if n.kind != "id" {
				return nil, fmt.Errorf("expected field name")
			}
			// pkg-qualified call e.g. eth.Foo(...) is not supported; treat as selector
			x = &CSel{x, n.s}
		case p.accept("["):
			var lo, hi CExpr
			if !p.isOp(":") {
				lo, err = p.expr()
				if err != nil {
					return nil, err
				}
			}
			if p.accept(":") {
				if !p.isOp("]") {
					hi, err = p.expr()
					if err != nil {
						return nil, err
					}
				}
				if err := p.expect("]"); err != nil {
					return nil, err
				}
				x = &CSlice{x, lo, hi}
				continue
			}
			if err := p.expect("]"); err != nil {
				return nil, err
			}
			x = &CIndex{x, lo}
		case p.isOp("("):
			id, ok := x.(*CIdent)
			if !ok {
				return x, nil
			}
			p.next()
			var args []CExpr
			for !p.isOp(")") {
				a, err := p.expr()
				if err != nil {
					return nil, err
				}
				args = append(args, a)
				if !p.accept(",") {
					break
				}
			}
			if err := p.expect(")"); err != nil {
				return nil, err
			}
			x = &CCall{id.Name, args}
		default:
			return x, nil
		}
	}
}

func (p *cparser) primary() (CExpr, error) {
	t := p.next()
	switch t.kind {
	case "int":
		v, ok := new(big.Int).SetString(t.s, 0)
		if !ok {
			return nil, fmt.Errorf("bad integer %q", t.s)
		}
		return &CInt{v}, nil
	case "str":
		return &CStr{t.s}, nil
	case "id":
		switch t.s {
		case "true":
			return &CBool{true}, nil
		case "false":
			return &CBool{false}, nil
		case "nil":
			return &CNil{}, nil
		}
		return &CIdent{t.s}, nil
	case "op":
		if t.s == "(" {
			e, err := p.expr()
			if err != nil {
				return nil, err
			}
			if err := p.expect(")"); err != nil {
				return nil, err
			}
			return e, nil
		}
	}
	return nil, fmt.Errorf("unexpected token %q", t.s)
}
