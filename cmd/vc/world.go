package main

import (
	"fmt"
	"go/types"
	"os"
	"path/filepath"
	"sort"
	"strings"

	"golang.org/x/tools/go/packages"
	"golang.org/x/tools/go/ssa"
	"golang.org/x/tools/go/ssa/ssautil"
)

const repoMod = "github.com/indexsupply/shovel"

type World struct {
	repo      string
	prog      *ssa.Program
	pkgs      []*packages.Package
	spkgs     map[string]*ssa.Package
	files     map[string]*ContractFile // by package path
	contracts map[*ssa.Function]*FuncContract
	lines     map[string][]string
	loadSecs  float64
}

var repoPkgs = []string{"./bint", "./eth", "./wstrings", "./jrpc2", "./dig", "./shovel", "./shovel/config", "./shovel/glf", "./shovel/web", "./wpg", "./wctx", "./wslog", "./wos", "./cmd/shovel"}

func loadWorld(repo string) (*World, error) {
	cfg := &packages.Config{
		Mode:       packages.LoadSyntax | packages.NeedModule,
		Dir:        repo,
		BuildFlags: []string{"-tags=verif"},
		Env:        append(os.Environ(), "GOFLAGS=-mod=mod", "GOPROXY=off", "GOSUMDB=off", "GOTOOLCHAIN=local"),
	}
	pkgs, err := packages.Load(cfg, repoPkgs...)
	if err != nil {
		return nil, err
	}
	var errs []string
	for _, p := range pkgs {
		for _, e := range p.Errors {
			errs = append(errs, e.Error())
		}
	}
	if len(errs) > 0 {
		return nil, fmt.Errorf("package errors:\n%s", strings.Join(errs, "\n"))
	}
	prog, spkgs := ssautil.Packages(pkgs, ssa.InstantiateGenerics|ssa.GlobalDebug)
	w := &World{repo: repo, prog: prog, pkgs: pkgs, spkgs: map[string]*ssa.Package{}, files: map[string]*ContractFile{},
		contracts: map[*ssa.Function]*FuncContract{}, lines: map[string][]string{}}
	// build SSA for the repo packages and everything they import from the repo
	for _, p := range prog.AllPackages() {
		if strings.HasPrefix(p.Pkg.Path(), repoMod) {
			p.Build()
		}
	}
	for i, sp := range spkgs {
		if sp == nil {
			continue
		}
		w.spkgs[pkgs[i].PkgPath] = sp
	}
	// contract files
	for _, p := range pkgs {
		dir := ""
		if len(p.GoFiles) > 0 {
			dir = filepath.Dir(p.GoFiles[0])
		}
		if dir == "" {
			continue
		}
		path := filepath.Join(dir, "verif_contracts.go")
		if _, err := os.Stat(path); err != nil {
			continue
		}
		cf, err := parseContractFile(path, p.PkgPath)
		if err != nil {
			return nil, err
		}
		w.files[p.PkgPath] = cf
		sp := w.spkgs[p.PkgPath]
		if sp == nil {
			continue
		}
		fns := allFuncs(sp)
		for name, fc := range cf.Funcs {
			fn := fns[name]
			if fn == nil {
				return nil, fmt.Errorf("%s: contract for unknown function %q in %s", path, name, p.PkgPath)
			}
			w.contracts[fn] = fc
		}
	}
	return w, nil
}

// allFuncs indexes every function of a package (methods, closures) by its
// package-relative name, e.g. "Decode", "(*Uint64).UnmarshalJSON", "(*Handler).Authn$1".
func allFuncs(sp *ssa.Package) map[string]*ssa.Function {
	out := map[string]*ssa.Function{}
	var add func(fn *ssa.Function)
	add = func(fn *ssa.Function) {
		if fn == nil {
			return
		}
		name := fn.RelString(sp.Pkg)
		if _, ok := out[name]; ok {
			return
		}
		out[name] = fn
		for _, a := range fn.AnonFuncs {
			add(a)
		}
	}
	for _, m := range sp.Members {
		switch v := m.(type) {
		case *ssa.Function:
			add(v)
		case *ssa.Type:
			for _, t := range []types.Type{v.Type(), types.NewPointer(v.Type())} {
				ms := sp.Prog.MethodSets.MethodSet(t)
				for i := 0; i < ms.Len(); i++ {
					fn := sp.Prog.MethodValue(ms.At(i))
					if fn != nil && fn.Pkg == sp && fn.Synthetic == "" {
						add(fn)
					}
				}
			}
		}
	}
	return out
}

func (w *World) contractOf(fn *ssa.Function) *FuncContract {
	if c, ok := w.contracts[fn]; ok {
		return c
	}
	if o := fn.Origin(); o != nil {
		return w.contracts[o]
	}
	return nil
}

func (w *World) typesPkg(path string) *types.Package {
	if sp, ok := w.spkgs[path]; ok {
		return sp.Pkg
	}
	return nil
}

func (w *World) findSpec(pkg *types.Package, name string) *SpecFunc {
	if pkg != nil {
		if cf, ok := w.files[pkg.Path()]; ok {
			if sp, ok := cf.Specs[name]; ok && !sp.IsLemma {
				return sp
			}
		}
	}
	// global search (unique names across packages)
	var paths []string
	for p := range w.files {
		paths = append(paths, p)
	}
	sort.Strings(paths)
	for _, p := range paths {
		if sp, ok := w.files[p].Specs[name]; ok && !sp.IsLemma {
			return sp
		}
	}
	return nil
}

func (w *World) sourceLine(file string, line int) string {
	ls, ok := w.lines[file]
	if !ok {
		data, err := os.ReadFile(file)
		if err == nil {
			ls = strings.Split(string(data), "\n")
		}
		w.lines[file] = ls
	}
	if line-1 >= 0 && line-1 < len(ls) {
		return ls[line-1]
	}
	return ""
}
