package main

// SMT-LIB term construction, script assembly and the solver race.

import (
	"bytes"
	"context"
	"fmt"
	"os"
	"os/exec"
	"path/filepath"
	"strings"
	"sync"
	"time"
)

type Sort string

const (
	SBool  Sort = "Bool"
	SInt   Sort = "Int"
	SBV64  Sort = "(_ BitVec 64)"
	SBV8   Sort = "(_ BitVec 8)"
	SSlice Sort = "Slice"
	SPtr   Sort = "Ptr"
	SStr   Sort = "Str"
	SIface Sort = "Iface"
	SBox   Sort = "Box"
)

func BVSort(w int) Sort { return Sort(fmt.Sprintf("(_ BitVec %d)", w)) }

func (s Sort) BVWidth() int {
	var w int
	if n, _ := fmt.Sscanf(string(s), "(_ BitVec %d)", &w); n == 1 {
		return w
	}
	return 0
}

func ArraySort(idx, elem Sort) Sort { return Sort(fmt.Sprintf("(Array %s %s)", idx, elem)) }

// mangle a sort into an identifier fragment
func (s Sort) Mangle() string {
	r := strings.NewReplacer("(_ BitVec ", "BV", "(Array ", "Arr_", ")", "", " ", "_", "(", "")
	return r.Replace(string(s))
}

type Term struct {
	S    string
	Sort Sort
}

func (t Term) String() string { return t.S }
func (t Term) IsZero() bool   { return t.S == "" }

func T(sort Sort, format string, args ...any) Term {
	return Term{S: fmt.Sprintf(format, args...), Sort: sort}
}

var (
	TTrue  = Term{"true", SBool}
	TFalse = Term{"false", SBool}
)

func BVConst(v uint64, w int) Term {
	if w%4 == 0 {
		return Term{fmt.Sprintf("#x%0*x", w/4, v&mask(w)), BVSort(w)}
	}
	return Term{fmt.Sprintf("(_ bv%d %d)", v&mask(w), w), BVSort(w)}
}

func mask(w int) uint64 {
	if w >= 64 {
		return ^uint64(0)
	}
	return (uint64(1) << uint(w)) - 1
}

func IntConst(v int64) Term {
	if v < 0 {
		return Term{fmt.Sprintf("(- %d)", -v), SInt}
	}
	return Term{fmt.Sprintf("%d", v), SInt}
}

func And(ts ...Term) Term {
	var xs []string
	for _, t := range ts {
		if t.S == "true" {
			continue
		}
		if t.S == "false" {
			return TFalse
		}
		xs = append(xs, t.S)
	}
	switch len(xs) {
	case 0:
		return TTrue
	case 1:
		return Term{xs[0], SBool}
	}
	return Term{"(and " + strings.Join(xs, " ") + ")", SBool}
}

func Or(ts ...Term) Term {
	var xs []string
	for _, t := range ts {
		if t.S == "false" {
			continue
		}
		if t.S == "true" {
			return TTrue
		}
		xs = append(xs, t.S)
	}
	switch len(xs) {
	case 0:
		return TFalse
	case 1:
		return Term{xs[0], SBool}
	}
	return Term{"(or " + strings.Join(xs, " ") + ")", SBool}
}

func Not(t Term) Term {
	switch t.S {
	case "true":
		return TFalse
	case "false":
		return TTrue
	}
	if strings.HasPrefix(t.S, "(not ") && balanced(t.S[5:len(t.S)-1]) {
		return Term{t.S[5 : len(t.S)-1], SBool}
	}
	return Term{"(not " + t.S + ")", SBool}
}

func balanced(s string) bool {
	d := 0
	for i, c := range s {
		switch c {
		case '(':
			d++
		case ')':
			d--
			if d < 0 {
				return false
			}
			if d == 0 && i != len(s)-1 {
				return false
			}
		case ' ':
			if d == 0 {
				return false
			}
		}
	}
	return d == 0
}

func Implies(a, b Term) Term {
	if a.S == "true" {
		return b
	}
	if a.S == "false" || b.S == "true" {
		return TTrue
	}
	return Term{"(=> " + a.S + " " + b.S + ")", SBool}
}

func Eq(a, b Term) Term {
	if a.S == b.S {
		return TTrue
	}
	if strings.HasPrefix(a.S, "strlit_") && strings.HasPrefix(b.S, "strlit_") && !strings.ContainsAny(a.S+b.S, " (") {
		return TFalse // distinct string literals are distinct constants
	}
	return Term{"(= " + a.S + " " + b.S + ")", SBool}
}

func Ite(c, a, b Term) Term {
	if c.S == "true" {
		return a
	}
	if c.S == "false" {
		return b
	}
	if a.S == b.S {
		return a
	}
	return Term{"(ite " + c.S + " " + a.S + " " + b.S + ")", a.Sort}
}

func App(sort Sort, f string, args ...Term) Term {
	if len(args) == 0 {
		return Term{f, sort}
	}
	var sb strings.Builder
	sb.WriteString("(")
	sb.WriteString(f)
	for _, a := range args {
		sb.WriteString(" ")
		sb.WriteString(a.S)
	}
	sb.WriteString(")")
	return Term{sb.String(), sort}
}

func Select(arr, idx Term) Term {
	es := arrayElemSort(arr.Sort)
	return App(es, "select", arr, idx)
}

func Store(arr, idx, v Term) Term { return App(arr.Sort, "store", arr, idx, v) }

// arrayElemSort parses "(Array I E)" and returns E.
func arrayElemSort(s Sort) Sort {
	str := string(s)
	if !strings.HasPrefix(str, "(Array ") {
		panic("not an array sort: " + str)
	}
	body := str[len("(Array ") : len(str)-1]
	// first sort then second
	i := sortEnd(body, 0)
	return Sort(strings.TrimSpace(body[i:]))
}

func arrayIdxSort(s Sort) Sort {
	str := string(s)
	body := str[len("(Array ") : len(str)-1]
	i := sortEnd(body, 0)
	return Sort(strings.TrimSpace(body[:i]))
}

func sortEnd(s string, i int) int {
	for i < len(s) && s[i] == ' ' {
		i++
	}
	if i < len(s) && s[i] == '(' {
		d := 0
		for ; i < len(s); i++ {
			if s[i] == '(' {
				d++
			}
			if s[i] == ')' {
				d--
				if d == 0 {
					return i + 1
				}
			}
		}
		return i
	}
	for i < len(s) && s[i] != ' ' {
		i++
	}
	return i
}

// ---------------------------------------------------------------------------
// Script: declarations (always included) and an ordered command list.

type Script struct {
	decls    []string
	declKeys []string
	declSeen map[string]bool
	cmds     []string // assumptions / definitions in execution order
	nfresh   int
}

func NewScript() *Script {
	return &Script{declSeen: map[string]bool{}}
}

func (sc *Script) Decl(key, text string) {
	if sc.declSeen[key] {
		return
	}
	sc.declSeen[key] = true
	sc.decls = append(sc.decls, text)
	sc.declKeys = append(sc.declKeys, key)
}

func (sc *Script) Fresh(prefix string, sort Sort) Term {
	sc.nfresh++
	name := fmt.Sprintf("%s!%d", sanitize(prefix), sc.nfresh)
	sc.cmds = append(sc.cmds, fmt.Sprintf("(declare-const %s %s)", name, sort))
	return Term{name, sort}
}

// Define introduces a name for t (keeps VC size linear in the DAG).
func (sc *Script) Define(prefix string, t Term) Term {
	if len(t.S) < 40 || !strings.ContainsAny(t.S, " ") {
		return t
	}
	n := sc.Fresh(prefix, t.Sort)
	sc.cmds = append(sc.cmds, fmt.Sprintf("(assert (= %s %s))", n.S, t.S))
	return n
}

func (sc *Script) Assume(t Term) {
	if t.S == "true" {
		return
	}
	sc.cmds = append(sc.cmds, "(assert "+t.S+")")
}

func (sc *Script) Comment(s string) {
	sc.cmds = append(sc.cmds, "; "+strings.ReplaceAll(s, "\n", " "))
}

func (sc *Script) Pos() int { return len(sc.cmds) }

func sanitize(s string) string {
	var b strings.Builder
	for _, c := range s {
		switch {
		case c >= 'a' && c <= 'z', c >= 'A' && c <= 'Z', c >= '0' && c <= '9', c == '_', c == '.':
			b.WriteRune(c)
		default:
			b.WriteRune('_')
		}
	}
	if b.Len() == 0 {
		return "v"
	}
	return "v_" + b.String()
}

// Query renders the file for an obligation whose negated goal is checked at
// command position pos.
func (sc *Script) Query(pos int, negGoal Term, wantModel bool) string {
	var b strings.Builder
	b.WriteString("(set-option :produce-models true)\n")
	b.WriteString("(set-logic ALL)\n")
	for i, d := range sc.decls {
		// definitional axioms of spec functions give the contract its meaning: always kept
		k := sc.declKeys[i]
		if wantModel && !strings.HasPrefix(k, "spec:") && k != "bytes.eq" {
			d = dropQuantifiedAsserts(d)
		}
		b.WriteString(d)
		b.WriteString("\n")
	}
	for _, c := range sc.cmds[:pos] {
		if wantModel && strings.HasPrefix(c, "(assert ") && (strings.Contains(c, "(forall ") || strings.Contains(c, "(exists ")) {
			continue
		}
		b.WriteString(c)
		b.WriteString("\n")
	}
	b.WriteString("(assert " + negGoal.S + ")\n")
	b.WriteString("(check-sat)\n")
	return b.String()
}

// ---------------------------------------------------------------------------
// Solvers

type SolverResult struct {
	Verdict string // unsat | sat | unknown | timeout | error
	Solver  string
	Secs    float64
	Output  string
	Model   string
}

type solverSpec struct {
	name string
	args func(file string, timeout time.Duration) []string
}

var solvers = []solverSpec{
	{"z3-new", func(f string, t time.Duration) []string {
		return []string{"z3-new", fmt.Sprintf("-T:%d", int(t.Seconds())+1), f}
	}},
	{"z3", func(f string, t time.Duration) []string {
		return []string{"z3", fmt.Sprintf("-T:%d", int(t.Seconds())+1), f}
	}},
	{"cvc5", func(f string, t time.Duration) []string {
		return []string{"cvc5", "--produce-models", fmt.Sprintf("--tlimit=%d", t.Milliseconds()), f}
	}},
	{"cvc5-enum", func(f string, t time.Duration) []string {
		return []string{"cvc5", "--produce-models", "--enum-inst", fmt.Sprintf("--tlimit=%d", t.Milliseconds()), f}
	}},
}

func runSolver(ctx context.Context, sp solverSpec, file string, timeout time.Duration) SolverResult {
	t0 := time.Now()
	argv := sp.args(file, timeout)
	cctx, cancel := context.WithTimeout(ctx, timeout+2*time.Second)
	defer cancel()
	cmd := exec.CommandContext(cctx, argv[0], argv[1:]...)
	var out bytes.Buffer
	cmd.Stdout = &out
	cmd.Stderr = &out
	_ = cmd.Run()
	res := SolverResult{Solver: sp.name, Secs: time.Since(t0).Seconds(), Output: out.String()}
	text := strings.TrimSpace(out.String())
	first := text
	if i := strings.IndexByte(text, '\n'); i >= 0 {
		first = text[:i]
	}
	first = strings.TrimSpace(first)
	switch {
	case ctx.Err() != nil:
		res.Verdict = "cancelled"
	case strings.Contains(text, "(error") || strings.Contains(text, "Parse Error") || strings.Contains(text, "Error:"):
		// z3 skips a bad assertion and may still answer unsat: never trust such a run
		res.Verdict = "error"
	case first == "unsat":
		res.Verdict = "unsat"
	case first == "sat":
		res.Verdict = "sat"
	case first == "unknown":
		res.Verdict = "unknown"
	case first == "timeout" || cctx.Err() != nil || strings.Contains(text, "interrupted by timeout") || strings.Contains(text, "timeout"):
		res.Verdict = "timeout"
	default:
		res.Verdict = "error"
	}
	return res
}

// raceSolvers runs all solvers in parallel on the same file. The first
// definite answer (unsat, or sat) wins. requireAll makes every solver that
// answers definitely agree (thorough tier).
func raceSolvers(file string, timeout time.Duration, which []string) (SolverResult, []SolverResult) {
	ctx, cancel := context.WithCancel(context.Background())
	defer cancel()
	var (
		mu   sync.Mutex
		all  []SolverResult
		best *SolverResult
		wg   sync.WaitGroup
	)
	for _, sp := range solvers {
		if len(which) > 0 && !contains(which, sp.name) {
			continue
		}
		sp := sp
		wg.Add(1)
		go func() {
			defer wg.Done()
			r := runSolver(ctx, sp, file, timeout)
			mu.Lock()
			defer mu.Unlock()
			all = append(all, r)
			if best == nil && (r.Verdict == "unsat" || r.Verdict == "sat") {
				rr := r
				best = &rr
				cancel()
			}
		}()
	}
	wg.Wait()
	if best != nil {
		return *best, all
	}
	// no definite answer: summarise
	res := SolverResult{Verdict: "unknown"}
	for _, r := range all {
		if r.Verdict == "error" {
			res.Verdict = "error"
			res.Solver = r.Solver
			res.Output = r.Output
		}
		if r.Secs > res.Secs {
			res.Secs = r.Secs
		}
	}
	if res.Verdict != "error" {
		allTimeout := true
		for _, r := range all {
			if r.Verdict != "timeout" {
				allTimeout = false
			}
			res.Output += r.Solver + ": " + firstLine(r.Output) + "\n"
		}
		if allTimeout {
			res.Verdict = "timeout"
		}
	}
	return res, all
}

func firstLine(s string) string {
	s = strings.TrimSpace(s)
	if i := strings.IndexByte(s, '\n'); i >= 0 {
		return s[:i]
	}
	return s
}

func contains(xs []string, x string) bool {
	for _, y := range xs {
		if y == x {
			return true
		}
	}
	return false
}

// getModel re-runs one solver with (get-value ...) for the given terms.
func getModel(file string, solver string, terms []string, timeout time.Duration) (map[string]string, string) {
	data, err := os.ReadFile(file)
	if err != nil {
		return nil, ""
	}
	mfile := strings.TrimSuffix(file, filepath.Ext(file)) + ".model.smt2"
	var b strings.Builder
	b.Write(data)
	for _, t := range terms {
		fmt.Fprintf(&b, "(get-value (%s))\n", t)
	}
	os.WriteFile(mfile, []byte(b.String()), 0o644)
	defer os.Remove(mfile)
	for _, sp := range solvers {
		if sp.name != solver {
			continue
		}
		r := runSolver(context.Background(), sp, mfile, timeout)
		lines := strings.Split(strings.TrimSpace(r.Output), "\n")
		if len(lines) == 0 || strings.TrimSpace(lines[0]) != "sat" {
			return nil, r.Output
		}
		vals := map[string]string{}
		rest := strings.Join(lines[1:], "\n")
		// each get-value answers "((term value))"
		items := splitTop(rest)
		for i, it := range items {
			if i >= len(terms) {
				break
			}
			inner := strings.TrimSpace(it)
			inner = strings.TrimPrefix(inner, "(")
			inner = strings.TrimSuffix(inner, ")")
			inner = strings.TrimSpace(inner)
			// inner = "(term value)": the value is the last element
			inner = strings.TrimPrefix(inner, "(")
			inner = strings.TrimSuffix(inner, ")")
			parts := splitArgs(inner)
			if len(parts) > 0 {
				vals[terms[i]] = strings.TrimSpace(parts[len(parts)-1])
			}
		}
		return vals, r.Output
	}
	return nil, ""
}

// splitTop splits a string into its top-level s-expressions.
func splitTop(s string) []string {
	var out []string
	d, start := 0, -1
	for i, c := range s {
		switch c {
		case '(':
			if d == 0 {
				start = i
			}
			d++
		case ')':
			d--
			if d == 0 && start >= 0 {
				out = append(out, s[start:i+1])
				start = -1
			}
		}
	}
	return out
}

// dropQuantifiedAsserts removes top-level (assert ...) commands that contain a
// quantifier (relaxed query used only to obtain counterexample candidates,
// which are then confirmed by replay on the real code).
func dropQuantifiedAsserts(d string) string {
	if !strings.Contains(d, "(forall ") && !strings.Contains(d, "(exists ") {
		return d
	}
	var out []string
	for _, e := range splitTop(d) {
		if strings.HasPrefix(e, "(assert ") && (strings.Contains(e, "(forall ") || strings.Contains(e, "(exists ")) {
			continue
		}
		out = append(out, e)
	}
	return strings.Join(out, "\n")
}
