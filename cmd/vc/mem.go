package main

// Symbolic state: heaps per element sort, local cells, allocation map, ghost variables.

import (
	"fmt"
	"go/types"
	"sort"
	"strings"

	"golang.org/x/tools/go/ssa"
)

type cellKey struct {
	frame int
	id    string
}

type State struct {
	reach  Term
	heaps  map[string]Term
	cells  map[cellKey]Term
	alloc  Term
	ghost  map[string]Term
	defer_ []*deferEntry
	dead   bool
}

type deferEntry struct {
	cond Term
	run  func(st *State)
	desc string
}

func (s *State) clone() *State {
	n := &State{reach: s.reach, alloc: s.alloc, dead: s.dead,
		heaps: make(map[string]Term, len(s.heaps)),
		cells: make(map[cellKey]Term, len(s.cells)),
		ghost: make(map[string]Term, len(s.ghost)),
	}
	for k, v := range s.heaps {
		n.heaps[k] = v
	}
	for k, v := range s.cells {
		n.cells[k] = v
	}
	for k, v := range s.ghost {
		n.ghost[k] = v
	}
	n.defer_ = append([]*deferEntry(nil), s.defer_...)
	return n
}

type LocKind int

const (
	LCell LocKind = iota
	LElem
	LField
	LArr
)

type Loc struct {
	Kind   LocKind
	Cell   cellKey
	Base   Term // LElem: Int
	Idx    Term // LElem: absolute index in the backing array (BV64); LArr: index
	Parent *Loc
	Field  int
	T      types.Type // pointee type
	NilOK  Term       // non-zero: condition under which the pointer is non-nil (opaque pointers)
	Global *ssa.Global
}

// Heaps are keyed by the Go element type (so that []row and [][]byte, or
// *Byte and []byte, never alias in the model: Go's type system keeps them
// apart unless unsafe or pointer conversions between named element types are
// used, which is a listed assumption). A Sort key is accepted for the
// untyped library models (bytes, interface values).
func (x *Exec) hkey(k any) (string, Sort) {
	switch v := k.(type) {
	case Sort:
		switch v {
		case SBV8:
			return "heap_uint8", SBV8
		case SIface:
			return "heap_any", SIface
		}
		return "heap_sort_" + v.Mangle(), v
	case types.Type:
		v = types.Unalias(v)
		if b, ok := v.(*types.Basic); ok && (b.Kind() == types.Uint8 || b.Kind() == types.Byte) {
			return "heap_uint8", SBV8
		}
		if it, ok := v.(*types.Interface); ok && it.NumMethods() == 0 {
			return "heap_any", SIface
		}
		var key string
		if n, ok := v.(*types.Named); ok {
			key = typeKey(n)
		} else {
			key = types.TypeString(v, func(p *types.Package) string { return p.Name() })
		}
		name := "heap_" + mangleIdent(key)
		x.heapTypes[name] = v
		return name, x.sortOf(v)
	}
	panic("hkey")
}

func (x *Exec) heapName(k any) string { n, _ := x.hkey(k); return n }

func heapSort(elemSort Sort) Sort { return ArraySort(SInt, ArraySort(SBV64, elemSort)) }

// heap returns the current heap array for an element sort, creating the
// initial symbolic heap on first use.
func (x *Exec) heap(st *State, k any) Term {
	name, elemSort := x.hkey(k)
	if h, ok := st.heaps[name]; ok {
		return h
	}
	// first use anywhere: the initial heap is a global constant
	init := Term{name + "_init", heapSort(elemSort)}
	x.sc.Decl("heap:"+name, fmt.Sprintf("(declare-const %s %s)", init.S, init.Sort))
	x.heapSorts[name] = heapSort(elemSort)
	return init
}

func sortedHeapNames(m map[string]Sort) []string {
	var ks []string
	for k := range m {
		ks = append(ks, k)
	}
	sort.Strings(ks)
	return ks
}

func (x *Exec) setHeap(st *State, k any, h Term) {
	name, elemSort := x.hkey(k)
	x.heapSorts[name] = heapSort(elemSort)
	st.heaps[name] = x.sc.Define(name, h)
}

func (x *Exec) heapRead(st *State, k any, base, idx Term) Term {
	return Select(Select(x.heap(st, k), base), idx)
}

// freshWrite: a function under contract option writes=fresh may write only
// to objects that were not allocated when it was entered (and its own local
// cells); callers then keep everything they knew about existing memory.
func (x *Exec) freshWrite(st *State, base Term, what string, unless ...Term) {
	if x.topC == nil || x.topC.Opts["writes"] != "fresh" || x.topEntryAlloc.S == "" || x.inHavoc {
		return
	}
	fr := x.curFrame
	name := x.fname(fr) + ":fresh-write:" + what
	if fr != nil && x.curPos.IsValid() {
		name = x.oblName(fr, "fresh-write", x.curPos)
	} else {
		x.oblCount[name]++
		if n := x.oblCount[name]; n > 1 {
			name = fmt.Sprintf("%s#%d", name, n)
		}
	}
	var props []string
	if fr != nil {
		props = fnProps(fr)
	}
	goal := Not(Select(x.topEntryAlloc, base))
	if len(unless) > 0 {
		goal = Or(append([]Term{goal}, unless...)...)
	}
	x.check(st, "frame", name, goal, props, "writes=fresh: "+what+" targets an object allocated after entry", x.pos(x.curPos))
}

func (x *Exec) heapWrite(st *State, k any, base, idx, v Term) {
	x.freshWrite(st, base, "store")
	h := x.heap(st, k)
	x.setHeap(st, k, Store(h, base, Store(Select(h, base), idx, v)))
}

func (x *Exec) load(st *State, l *Loc) Term {
	switch l.Kind {
	case LCell:
		v, ok := st.cells[l.Cell]
		if !ok {
			if l.Global != nil {
				return x.globalInit(st, l.Global)
			}
			return x.zeroOf(l.T)
		}
		return v
	case LElem:
		return x.heapRead(st, l.T, l.Base, l.Idx)
	case LField:
		pv := x.load(st, l.Parent)
		return x.fieldGet(pv, l.Parent.T, l.Field)
	case LArr:
		pv := x.load(st, l.Parent)
		return Select(pv, l.Idx)
	}
	panic("load")
}

func (x *Exec) store(st *State, l *Loc, v Term) {
	switch l.Kind {
	case LCell:
		st.cells[l.Cell] = x.sc.Define("cell_"+l.Cell.id, v)
	case LElem:
		x.heapWrite(st, l.T, l.Base, l.Idx, v)
	case LField:
		pv := x.load(st, l.Parent)
		x.store(st, l.Parent, x.fieldSet(pv, l.Parent.T, l.Field, v))
	case LArr:
		pv := x.load(st, l.Parent)
		x.store(st, l.Parent, Store(pv, l.Idx, v))
	default:
		panic("store")
	}
}

// ptrTerm renders a location as a Ptr value.
func (x *Exec) ptrTerm(l *Loc) Term {
	switch l.Kind {
	case LElem:
		return App(SPtr, "pelem", l.Base, l.Idx)
	case LField:
		return App(SPtr, "pfield", x.ptrTerm(l.Parent), IntConst(int64(l.Field)))
	case LArr:
		// array element inside another object: encode the index in the field slot (negative to avoid clashes)
		return App(SPtr, "pfield", x.ptrTerm(l.Parent), App(SInt, "-", IntConst(-1), App(SInt, "bv2nat", l.Idx)))
	case LCell:
		// a non-escaping cell never needs a pointer value; give it a stable fake
		x.unsupported("address of non-escaping cell used as a value: " + l.Cell.id)
		return Term{"pnil", SPtr}
	}
	panic("ptrTerm")
}

// locOfPtr interprets an opaque pointer term of type *T.
func (x *Exec) locOfPtr(p Term, elem types.Type) *Loc {
	return &Loc{Kind: LElem, Base: App(SInt, "pbase", p), Idx: App(SBV64, "pidx", p), T: elem,
		NilOK: App(SBool, "(_ is pelem)", p)}
}

// newObject allocates a fresh backing array / object and returns its address.
func (x *Exec) newObject(st *State, what string) Term {
	a := x.sc.Fresh("addr_"+what, SInt)
	x.sc.Assume(Implies(st.reach, And(App(SBool, ">", a, IntConst(0)), Not(Select(st.alloc, a)))))
	st.alloc = x.sc.Define("alloc", Store(st.alloc, a, TTrue))
	return a
}

// merge joins states arriving at a block.
func (x *Exec) merge(states []*State) *State {
	var live []*State
	for _, s := range states {
		if s != nil && !s.dead && s.reach.S != "false" {
			live = append(live, s)
		}
	}
	if len(live) == 0 {
		return nil
	}
	if len(live) == 1 {
		return live[0].clone()
	}
	out := live[0].clone()
	var rs []Term
	for _, s := range live {
		rs = append(rs, s.reach)
	}
	out.reach = x.sc.Define("reach", Or(rs...))
	pick := func(get func(*State) (Term, bool), dflt func() Term) Term {
		// ite chain over live states
		var vals []Term
		same := true
		for _, s := range live {
			v, ok := get(s)
			if !ok {
				v = dflt()
			}
			vals = append(vals, v)
			if v.S != vals[0].S {
				same = false
			}
		}
		if same {
			return vals[0]
		}
		if strings.HasPrefix(string(vals[0].Sort), "(Array ") {
			// arrays: a fresh constant equal to the incoming value under each
			// incoming path condition (no ite over arrays: keeps triggers usable)
			m := x.sc.Fresh("merged", vals[0].Sort)
			for i := range vals {
				x.sc.Assume(Implies(live[i].reach, Eq(m, vals[i])))
			}
			return m
		}
		res := vals[len(vals)-1]
		for i := len(vals) - 2; i >= 0; i-- {
			res = Ite(live[i].reach, vals[i], res)
		}
		return res
	}
	// heaps
	names := map[string]bool{}
	for _, s := range live {
		for k := range s.heaps {
			names[k] = true
		}
	}
	for _, k := range sortedKeys(names) {
		k := k
		hs := x.heapSorts[k]
		v := pick(func(s *State) (Term, bool) { v, ok := s.heaps[k]; return v, ok },
			func() Term { return Term{k + "_init", hs} })
		out.heaps[k] = x.sc.Define(k, v)
	}
	// cells
	ckeys := map[cellKey]bool{}
	for _, s := range live {
		for k := range s.cells {
			ckeys[k] = true
		}
	}
	var cks []cellKey
	for k := range ckeys {
		cks = append(cks, k)
	}
	sort.Slice(cks, func(i, j int) bool {
		if cks[i].frame != cks[j].frame {
			return cks[i].frame < cks[j].frame
		}
		return cks[i].id < cks[j].id
	})
	for _, k := range cks {
		k := k
		var dflt Term
		for _, s := range live {
			if v, ok := s.cells[k]; ok {
				dflt = v
				break
			}
		}
		v := pick(func(s *State) (Term, bool) { v, ok := s.cells[k]; return v, ok }, func() Term { return dflt })
		out.cells[k] = x.sc.Define("cell_"+k.id, v)
	}
	// ghost
	gk := map[string]bool{}
	for _, s := range live {
		for k := range s.ghost {
			gk[k] = true
		}
	}
	for _, k := range sortedKeys(gk) {
		k := k
		var dflt Term
		for _, s := range live {
			if v, ok := s.ghost[k]; ok {
				dflt = v
				break
			}
		}
		v := pick(func(s *State) (Term, bool) { v, ok := s.ghost[k]; return v, ok }, func() Term { return dflt })
		out.ghost[k] = x.sc.Define("ghost_"+k, v)
	}
	out.alloc = x.sc.Define("alloc", pick(func(s *State) (Term, bool) { return s.alloc, true }, nil))
	// defers: keep union, guarded by the reach of the state they came from
	out.defer_ = nil
	seen := map[*deferEntry]bool{}
	for _, s := range live {
		for _, d := range s.defer_ {
			if !seen[d] {
				seen[d] = true
				out.defer_ = append(out.defer_, d)
			}
		}
	}
	return out
}

func sortedKeys(m map[string]bool) []string {
	var ks []string
	for k := range m {
		ks = append(ks, k)
	}
	sort.Strings(ks)
	return ks
}
