package main

import (
	"fmt"
	"go/token"
	"go/types"
	"sort"
	"strings"

	"golang.org/x/tools/go/ssa"
)

type callSite struct {
	bindings []*Val // captured variables when the callee is a closure
	fr       *Frame
	st       *State
	cc       *ssa.CallCommon
	args     []*Val // including receiver for static method calls
	recv     *Val   // invoke receiver
	pos      token.Pos
	res      types.Type // result type (nil, single, or tuple)
}

func resultType(sig *types.Signature) types.Type {
	switch sig.Results().Len() {
	case 0:
		return nil
	case 1:
		return sig.Results().At(0).Type()
	}
	return sig.Results()
}

func (x *Exec) call(fr *Frame, st *State, cc *ssa.CallCommon, res ssa.Value, p token.Pos) *Val {
	v := x.call1(fr, st, cc, res, p)
	x.coverBudget = 3
	if f, ok := cc.Value.(*ssa.Function); ok && v != nil {
		if fr.callVals == nil {
			fr.callVals = map[string][]*Val{}
		}
		fr.callVals[f.Name()] = append(fr.callVals[f.Name()], v)
	}
	return v
}

func (x *Exec) call1(fr *Frame, st *State, cc *ssa.CallCommon, res ssa.Value, p token.Pos) *Val {
	cs := &callSite{fr: fr, st: st, cc: cc, pos: p, res: resultType(cc.Signature())}
	for _, a := range cc.Args {
		cs.args = append(cs.args, x.val(fr, a))
	}
	if cc.IsInvoke() {
		cs.recv = x.val(fr, cc.Value)
		return x.invoke(cs)
	}
	switch callee := cc.Value.(type) {
	case *ssa.Builtin:
		return x.builtin(cs, callee)
	case *ssa.Function:
		return x.callStatic(cs, callee, nil)
	}
	fv := x.val(fr, cc.Value)
	if fv.Clo != nil {
		return x.callStatic(cs, fv.Clo.Fn, fv.Clo.Bindings)
	}
	if fv.Fn != nil {
		return x.callStatic(cs, fv.Fn, nil)
	}
	return x.dynamicCall(cs, cc.Value, fv)
}

func (x *Exec) freshResult(st *State, name string, t types.Type) *Val {
	if t == nil {
		return &Val{}
	}
	return x.freshVal(st, name, t)
}

func funcKey(fn *ssa.Function) string {
	if o := fn.Origin(); o != nil {
		fn = o
	}
	return fn.String()
}

func (x *Exec) callStatic(cs *callSite, callee *ssa.Function, bindings []*Val) *Val {
	key := funcKey(callee)
	x.atCall(cs, callee)
	if m, ok := libModels[key]; ok {
		return m(x, cs)
	}
	if strings.HasPrefix(key, "github.com/indexsupply/shovel/wctx.") {
		return x.wctxModel(cs, strings.TrimPrefix(key, "github.com/indexsupply/shovel/wctx."))
	}
	if c := x.w.contractOf(callee); c != nil {
		cs.bindings = bindings
		return x.applyContract(cs, callee, c)
	}
	if x.inlinable(callee) {
		return x.inline(cs, callee, bindings)
	}
	return x.unknownCall(cs, key)
}

func (x *Exec) inlinable(fn *ssa.Function) bool {
	if len(fn.Blocks) == 0 {
		return false
	}
	for _, f := range x.inlineStack {
		if f == fn {
			return false
		}
	}
	if len(x.inlineStack) > 6 {
		return false
	}
	pkg := fn.Pkg
	if pkg == nil && fn.Parent() != nil {
		pkg = fn.Parent().Pkg
	}
	if pkg == nil {
		// instantiated generic or synthetic wrapper: allow if origin in repo
		if o := fn.Origin(); o != nil && o.Pkg != nil {
			pkg = o.Pkg
		} else {
			return fn.Synthetic != "" && len(fn.Blocks) <= 3
		}
	}
	if !strings.HasPrefix(pkg.Pkg.Path(), "github.com/indexsupply/shovel") {
		return false
	}
	return true
}

func (x *Exec) inline(cs *callSite, callee *ssa.Function, bindings []*Val) *Val {
	fr := x.newFrame(callee, true)
	fr.c = nil
	for i, p := range callee.Params {
		if i < len(cs.args) {
			fr.env[p] = cs.args[i]
		}
	}
	for i, fv := range callee.FreeVars {
		if i < len(bindings) {
			fr.env[fv] = bindings[i]
		}
	}
	x.inlineStack = append(x.inlineStack, callee)
	saved := x.curFrame
	x.curFrame = fr
	x.sc.Comment("inline " + callee.String())
	entry := cs.st.clone()
	entry.defer_ = nil
	fr.entry = entry
	x.runBody(fr, entry)
	x.curFrame = saved
	x.inlineStack = x.inlineStack[:len(x.inlineStack)-1]
	x.sc.Comment("end inline " + callee.String())
	// merge return points back into the caller state
	var states []*State
	for _, r := range fr.rets {
		states = append(states, r.st)
	}
	m := x.merge(states)
	if m == nil {
		// callee never returns normally (always panics)
		cs.st.dead = true
		cs.st.reach = TFalse
		return x.freshResult(cs.st, "noret", cs.res)
	}
	callerDefers := cs.st.defer_
	*cs.st = *m
	cs.st.defer_ = callerDefers
	if cs.res == nil {
		return &Val{}
	}
	// merge results
	var live []retPoint
	for _, r := range fr.rets {
		if !r.st.dead && r.st.reach.S != "false" {
			live = append(live, r)
		}
	}
	var conds []Term
	for _, r := range live {
		conds = append(conds, r.st.reach)
	}
	if tup, ok := cs.res.(*types.Tuple); ok {
		out := &Val{Ty: tup}
		for i := 0; i < tup.Len(); i++ {
			var vs []*Val
			for _, r := range live {
				vs = append(vs, r.vals[i])
			}
			out.Tuple = append(out.Tuple, x.mergeVals(fmt.Sprintf("ret%d", i), tup.At(i).Type(), vs, conds))
		}
		return out
	}
	var vs []*Val
	for _, r := range live {
		vs = append(vs, r.vals[0])
	}
	return x.mergeVals("ret", cs.res, vs, conds)
}

// unknownCall: the callee is outside the verified text and has no model.
func (x *Exec) unknownCall(cs *callSite, name string) *Val {
	if pureFuncs[name] || strings.HasPrefix(name, "log/slog.") || strings.HasPrefix(name, "(*log/slog.") ||
		strings.HasPrefix(name, "time.") || strings.HasPrefix(name, "(time.") || strings.HasPrefix(name, "fmt.") ||
		strings.HasPrefix(name, "strconv.") || strings.HasPrefix(name, "strings.") || strings.HasPrefix(name, "unicode.") {
		x.assumeNote("external call " + name + " summarised as effect-free with an unconstrained result")
		return x.freshResult(cs.st, "ext", cs.res)
	}
	x.assumeNote("external call " + name + " summarised as havoc (with an unconstrained result) of all memory except objects of types declared in this repository that are not passed to it")
	x.havocExternal(cs, "call")
	return x.freshResult(cs.st, "ext", cs.res)
}

func (x *Exec) havocAll(st *State, why string) {
	for _, h := range sortedHeapNames(x.heapSorts) {
		st.heaps[h] = x.sc.Fresh(h+"_"+why, x.heapSorts[h])
	}
	na := x.sc.Fresh("alloc_"+why, st.alloc.Sort)
	x.sc.Assume(T(SBool, "(forall ((a Int)) (! (=> (select %s a) (select %s a)) :pattern ((select %s a))))", st.alloc.S, na.S, na.S))
	st.alloc = na
}

var pureFuncs = map[string]bool{
	"errors.As": true, "errors.Unwrap": true,
	"context.Background": true, "context.WithValue": true, "context.TODO": true,
	"(*sync.Mutex).Lock": true, "(*sync.Mutex).Unlock": true, "(*sync.RWMutex).Lock": true, "(*sync.RWMutex).Unlock": true,
	"(*sync.RWMutex).RLock": true, "(*sync.RWMutex).RUnlock": true, "(*sync.Mutex).TryLock": true,
	"(*sync.WaitGroup).Add": true, "(*sync.WaitGroup).Done": true, "(*sync.WaitGroup).Wait": true,
	"crypto/rand.Read": true, "os.Exit": true,
	"(*github.com/jackc/pgx/v5/pgconn.CommandTag).RowsAffected": true, "(github.com/jackc/pgx/v5/pgconn.CommandTag).RowsAffected": true,
}

// dynamicCall: call through a function value that is not statically known.
func (x *Exec) dynamicCall(cs *callSite, fv ssa.Value, v *Val) *Val {
	if isContextCancel(fv) {
		return x.freshResult(cs.st, "cancel", cs.res)
	}
	// record the call event for contracts that speak about called(f)
	name := dynName(fv)
	if name != "" {
		g := "called_" + name
		old, ok := cs.st.ghost[g]
		if !ok {
			old = IntConst(0)
		}
		cs.st.ghost[g] = x.sc.Define(g, App(SInt, "+", old, IntConst(1)))
	}
	if m, ok := x.dynModels[name]; ok {
		return m(x, cs)
	}
	if c := x.w.contractOf(cs.fr.fn); c != nil && name != "" {
		var ens []*Clause
		pure := false
		for _, cl := range c.Clauses {
			if cl.Name != name {
				continue
			}
			switch cl.Kind {
			case "dyncall-pure":
				pure = true
			case "dyncall-ensures":
				ens = append(ens, cl)
			}
		}
		if pure || len(ens) > 0 {
			if pure {
				x.assumeNote(fmt.Sprintf("function value %q in %s does not modify existing memory (assumed)", name, x.fname(cs.fr)))
				na := x.sc.Fresh("alloc_dyn", cs.st.alloc.Sort)
				x.sc.Assume(T(SBool, "(forall ((a Int)) (! (=> (select %s a) (select %s a)) :pattern ((select %s a))))", cs.st.alloc.S, na.S, na.S))
				cs.st.alloc = na
			} else {
				x.havocExternal(cs, "dyncall")
			}
			res := x.freshResult(cs.st, "dyn_"+name, cs.res)
			env := x.contractEnv(cs.fr, cs.st)
			x.bindLiveNames(env, cs.fr, cs.st)
			var vals []*Val
			if res.Tuple != nil {
				vals = res.Tuple
			} else if cs.res != nil {
				vals = []*Val{res}
			}
			for i, v := range vals {
				cv := x.cvOfVal(v)
				env.vars[fmt.Sprintf("result%d", i)] = cv
			}
			// the arguments of this call of the function value: arg0, arg1, ...
			for k, a := range cs.args {
				cv := x.cvOfVal(a)
				if k < len(cs.cc.Args) {
					cv.Ty = cs.cc.Args[k].Type()
				}
				env.vars[fmt.Sprintf("arg%d", k)] = cv
			}
			for _, cl := range ens {
				t, err := x.evalBool(env, cl.Expr)
				if err != nil {
					x.unsupported("dyncall clause: " + err.Error())
					continue
				}
				x.assume(cs.st, t)
				x.assumeNote(fmt.Sprintf("assumed contract of function value %q in %s: %s", name, x.fname(cs.fr), cl.Text))
			}
			return res
		}
	}
	x.assumeNote(fmt.Sprintf("call through function value %q in %s summarised as havoc of all heaps", fv.Name(), x.fname(cs.fr)))
	x.havocAll(cs.st, "dyncall")
	return x.freshResult(cs.st, "dyn", cs.res)
}

func (x *Exec) invoke(cs *callSite) *Val {
	m := cs.cc.Method
	recvT := cs.cc.Value.Type()
	key := types.TypeString(recvT, nil) + "." + m.Name()
	if mod, ok := ifaceModels[key]; ok {
		return mod(x, cs)
	}
	if mod, ok := ifaceModels["*."+m.Name()]; ok {
		if r := mod(x, cs); r != nil {
			return r
		}
	}
	x.assumeNote("interface call " + key + " summarised as havoc (with an unconstrained result) of all memory except objects of types declared in this repository that are not passed to it")
	x.havocExternal(cs, "invoke")
	return x.freshResult(cs.st, "inv_"+m.Name(), cs.res)
}

// ---------------------------------------------------------------------------
// builtins

func (x *Exec) builtin(cs *callSite, b *ssa.Builtin) *Val {
	st := cs.st
	switch b.Name() {
	case "len":
		a := cs.args[0]
		switch u := cs.cc.Args[0].Type().Underlying().(type) {
		case *types.Slice:
			return &Val{T: sLen(x.term(a)), Ty: types.Typ[types.Int]}
		case *types.Basic:
			return &Val{T: App(SBV64, "gs.len", x.term(a)), Ty: types.Typ[types.Int]}
		case *types.Array:
			return &Val{T: bv64(uint64(u.Len())), Ty: types.Typ[types.Int]}
		case *types.Map:
			return &Val{T: x.mapLen(st, u, x.term(a)), Ty: types.Typ[types.Int]}
		case *types.Pointer:
			return &Val{T: bv64(uint64(u.Elem().Underlying().(*types.Array).Len())), Ty: types.Typ[types.Int]}
		}
	case "cap":
		a := cs.args[0]
		switch u := cs.cc.Args[0].Type().Underlying().(type) {
		case *types.Slice:
			return &Val{T: sCap(x.term(a)), Ty: types.Typ[types.Int]}
		case *types.Array:
			return &Val{T: bv64(uint64(u.Len())), Ty: types.Typ[types.Int]}
		}
	case "min", "max":
		t := cs.cc.Args[0].Type()
		r := x.term(cs.args[0])
		for i := 1; i < len(cs.args); i++ {
			o := x.term(cs.args[i])
			var lt Term
			if b.Name() == "min" {
				lt = x.binop(nil, token.LSS, o, r, t, t, cs.pos)
			} else {
				lt = x.binop(nil, token.GTR, o, r, t, t, cs.pos)
			}
			r = Ite(lt, o, r)
		}
		return &Val{T: x.sc.Define(b.Name(), r), Ty: t}
	case "append":
		return x.doAppend(cs)
	case "copy":
		return x.doCopy(cs)
	case "clear":
		switch u := cs.cc.Args[0].Type().Underlying().(type) {
		case *types.Slice:
			s := x.term(cs.args[0])
			es := x.sortOf(u.Elem())
			h := x.heap(st, u.Elem())
			na := x.sc.Fresh("cleared", ArraySort(SBV64, es))
			oa := Select(h, sBase(s))
			x.assume(st, T(SBool, "(forall ((k (_ BitVec 64))) (! (= (select %s k) (ite (and (bvule %s k) (bvult k (bvadd %s %s))) %s (select %s k))) :pattern ((select %s k))))",
				na.S, sOff(s).S, sOff(s).S, sLen(s).S, x.zeroOf(u.Elem()).S, oa.S, na.S))
			x.setHeap(st, u.Elem(), Store(h, sBase(s), na))
			return &Val{}
		case *types.Map:
			x.mapClear(st, u, x.term(cs.args[0]))
			return &Val{}
		}
	case "delete":
		mt := cs.cc.Args[0].Type().Underlying().(*types.Map)
		x.mapDelete(st, mt, x.term(cs.args[0]), x.term(cs.args[1]))
		return &Val{}
	case "print", "println":
		return &Val{}
	case "recover":
		return &Val{T: Term{"inil", SIface}, Ty: types.NewInterfaceType(nil, nil)}
	case "close":
		return &Val{}
	}
	x.unsupported("builtin " + b.Name())
	return x.freshResult(st, "builtin", cs.res)
}

func (x *Exec) doAppend(cs *callSite) *Val {
	st := cs.st
	st0 := cs.cc.Args[0].Type()
	sl := st0.Underlying().(*types.Slice)
	es := x.sortOf(sl.Elem())
	s := x.term(cs.args[0])
	var n Term
	var elemAt func(k Term) Term // k-th appended element
	if isString(cs.cc.Args[1].Type()) {
		e := x.term(cs.args[1])
		n = App(SBV64, "gs.len", e)
		elemAt = func(k Term) Term { return App(SBV8, "gs.at", e, k) }
	} else {
		e := x.term(cs.args[1])
		n = sLen(e)
		h0 := x.heap(st, sl.Elem())
		ea := x.sc.Define("app_src", Select(h0, sBase(e)))
		elemAt = func(k Term) Term { return Select(ea, App(SBV64, "bvadd", sOff(e), k)) }
	}
	n = x.sc.Define("app_n", n)
	h := x.heap(st, sl.Elem())
	newLen := x.sc.Define("app_len", App(SBV64, "bvadd", sLen(s), n))
	x.assume(st, App(SBool, "bvult", newLen, bv64(maxLen)))
	x.assumeNote("slices never reach 2^47 elements (append cannot overflow the length)")
	fits := x.sc.Define("app_fits", And(App(SBool, "bvule", newLen, sCap(s)), Not(Eq(sBase(s), IntConst(0)))))
	// appending nothing to a nil slice keeps nil
	fresh := x.sc.Fresh("addr_append", SInt)
	x.assume(st, And(App(SBool, ">", fresh, IntConst(0)), Not(Select(st.alloc, fresh))))
	newCap := x.sc.Fresh("app_cap", SBV64)
	x.assume(st, And(App(SBool, "bvule", newLen, newCap), App(SBool, "bvult", newCap, bv64(maxLen))))
	keepNil := x.sc.Define("app_keepnil", And(Eq(sBase(s), IntConst(0)), Eq(n, bv64(0))))
	rbase := Ite(fits, sBase(s), Ite(keepNil, IntConst(0), fresh))
	roff := Ite(fits, sOff(s), bv64(0))
	rcap := Ite(fits, sCap(s), Ite(keepNil, bv64(0), newCap))
	r := x.sc.Define("appended", mkSlice(rbase, roff, newLen, rcap))
	st.alloc = x.sc.Define("alloc", Ite(Or(fits, keepNil), st.alloc, Store(st.alloc, fresh, TTrue)))
	// new backing array contents
	oa := x.sc.Define("app_old", Select(h, sBase(s)))
	na := x.sc.Fresh("app_arr", ArraySort(SBV64, es))
	k := Term{"k", SBV64}
	rel := App(SBV64, "bvsub", k, roff) // index relative to the result slice
	inOld := App(SBool, "bvult", rel, sLen(s))
	inNew := And(App(SBool, "bvuge", rel, sLen(s)), App(SBool, "bvult", rel, newLen))
	val := Ite(inNew, elemAt(App(SBV64, "bvsub", rel, sLen(s))),
		Ite(fits, Select(oa, k),
			Ite(inOld, Select(oa, App(SBV64, "bvadd", sOff(s), rel)), x.zeroOf(sl.Elem()))))
	x.assume(st, T(SBool, "(forall ((k (_ BitVec 64))) (! (= (select %s k) %s) :pattern ((select %s k))))", na.S, val.S, na.S))
	x.freshWrite(st, rbase, "append", Eq(n, bv64(0)))
	x.setHeap(st, sl.Elem(), Store(h, rbase, na))
	return &Val{T: r, Ty: st0}
}

func (x *Exec) doCopy(cs *callSite) *Val {
	st := cs.st
	dst := x.term(cs.args[0])
	sl := cs.cc.Args[0].Type().Underlying().(*types.Slice)
	es := x.sortOf(sl.Elem())
	h := x.heap(st, sl.Elem())
	var n Term
	var srcAt func(k Term) Term
	if isString(cs.cc.Args[1].Type()) {
		e := x.term(cs.args[1])
		n = App(SBV64, "gs.len", e)
		srcAt = func(k Term) Term { return App(SBV8, "gs.at", e, k) }
	} else {
		e := x.term(cs.args[1])
		n = sLen(e)
		ea := x.sc.Define("copy_src", Select(h, sBase(e)))
		srcAt = func(k Term) Term { return Select(ea, App(SBV64, "bvadd", sOff(e), k)) }
	}
	cnt := x.sc.Define("copy_n", Ite(App(SBool, "bvult", sLen(dst), n), sLen(dst), n))
	oa := x.sc.Define("copy_old", Select(h, sBase(dst)))
	na := x.sc.Fresh("copy_arr", ArraySort(SBV64, es))
	k := Term{"k", SBV64}
	rel := App(SBV64, "bvsub", k, sOff(dst))
	val := Ite(App(SBool, "bvult", rel, cnt), srcAt(rel), Select(oa, k))
	x.assume(st, T(SBool, "(forall ((k (_ BitVec 64))) (! (= (select %s k) %s) :pattern ((select %s k))))", na.S, val.S, na.S))
	x.freshWrite(st, sBase(dst), "copy", Eq(cnt, bv64(0)))
	x.setHeap(st, sl.Elem(), Ite(Eq(cnt, bv64(0)), h, Store(h, sBase(dst), na)))
	return &Val{T: cnt, Ty: types.Typ[types.Int]}
}

// ---------------------------------------------------------------------------
// defers

func (x *Exec) doDefer(fr *Frame, st *State, i *ssa.Defer) {
	cc := i.Common()
	cs := &callSite{fr: fr, cc: cc, pos: i.Pos(), res: resultType(cc.Signature())}
	for _, a := range cc.Args {
		cs.args = append(cs.args, x.val(fr, a))
	}
	var fv *Val
	if cc.IsInvoke() {
		cs.recv = x.val(fr, cc.Value)
	} else if _, ok := cc.Value.(*ssa.Builtin); !ok {
		if _, ok := cc.Value.(*ssa.Function); !ok {
			fv = x.val(fr, cc.Value)
		}
	}
	d := &deferEntry{cond: st.reach, desc: cc.String()}
	d.run = func(s *State) {
		c2 := *cs
		c2.st = s
		switch {
		case cc.IsInvoke():
			x.invoke(&c2)
		default:
			switch callee := cc.Value.(type) {
			case *ssa.Builtin:
				x.builtin(&c2, callee)
			case *ssa.Function:
				x.callStatic(&c2, callee, nil)
			default:
				if fv != nil && fv.Clo != nil {
					x.callStatic(&c2, fv.Clo.Fn, fv.Clo.Bindings)
				} else if fv != nil && fv.Fn != nil {
					x.callStatic(&c2, fv.Fn, nil)
				} else {
					x.dynamicCall(&c2, cc.Value, fv)
				}
			}
		}
	}
	st.defer_ = append(st.defer_, d)
}

func (x *Exec) runDefers(fr *Frame, st *State) {
	ds := st.defer_
	st.defer_ = nil
	for i := len(ds) - 1; i >= 0; i-- {
		d := ds[i]
		if d.cond.S == st.reach.S || d.cond.S == "true" || d.cond.S == fr.entry.reach.S {
			d.run(st)
			continue
		}
		on := st.clone()
		on.defer_ = nil
		on.reach = x.sc.Define("reach", And(st.reach, d.cond))
		off := st.clone()
		off.defer_ = nil
		off.reach = x.sc.Define("reach", And(st.reach, Not(d.cond)))
		d.run(on)
		m := x.merge([]*State{on, off})
		if m != nil {
			r := st.reach
			*st = *m
			st.reach = r
			st.defer_ = nil
		}
	}
}

// ---------------------------------------------------------------------------
// contract application at a call site

func (x *Exec) applyContract(cs *callSite, callee *ssa.Function, c *FuncContract) *Val {
	st := cs.st
	x.sc.Comment("call (by contract) " + callee.String())
	// parameter bindings
	vars := map[string]*CV{}
	for i, p := range callee.Params {
		if i < len(cs.args) {
			vars[p.Name()] = x.cvOfVal(cs.args[i])
			vars[p.Name()].Ty = p.Type()
		}
	}
	// captured variables of a closure callee: names mean the variables' current values
	for i, fv := range callee.FreeVars {
		if i >= len(cs.bindings) || cs.bindings[i] == nil {
			continue
		}
		cv := x.cvOfVal(cs.bindings[i])
		if pt, ok := fv.Type().Underlying().(*types.Pointer); ok {
			if loc := x.locOfCV(cv, pt.Elem()); loc != nil {
				vars[fv.Name()] = &CV{T: x.load(st, loc), Ty: pt.Elem(), Addr: loc, Lazy: true}
			}
		}
	}
	pkg := callee.Pkg
	if pkg == nil && callee.Parent() != nil {
		pkg = callee.Parent().Pkg
	}
	env := &CEnv{x: x, st: st, old: st, vars: vars, fn: callee}
	if pkg != nil {
		env.pkg = pkg.Pkg
	}
	cname := relFuncName(callee)
	// a callee verified against a database view (conn=<param>): bind the view to
	// the caller's working copy or committed state, depending on the connection passed
	view := ""
	if cp := c.Opts["conn"]; cp != "" && x.dbMode() != "" {
		for i, p := range callee.Params {
			if p.Name() == cp && i < len(cs.args) {
				view = x.view(st, x.term(cs.args[i]))
			}
		}
		if view != "" && view != "V_" {
			for _, n := range []string{"cur", "hash", "rows"} {
				st.ghost["V_"+n] = st.ghost[view+n]
			}
		}
		// the callee acts on its own pair: it must be the caller's pair
		if spec := c.Opts["pair"]; spec != "" {
			if src, ig, ok := x.pairTerms(st); ok {
				parts := strings.Split(spec, ",")
				for k, pe := range parts {
					if e, err := parseCExpr(pe); err == nil {
						if cv, err := x.eval(env, e); err == nil {
							want := src
							if k == 1 {
								want = ig
							}
							x.check(st, "frame", x.oblName(cs.fr, fmt.Sprintf("call-pair[%s#%d]", cname, k), cs.pos), Eq(x.cvTerm(cv, nil), want), []string{"C04"},
								"callee "+cname+" acts on the caller's own (source, integration) pair", x.pos(cs.pos))
						}
					}
				}
			}
		}
	}
	for i, cl := range c.Clauses {
		if cl.Kind != "requires" {
			continue
		}
		parts := conjuncts(cl.Expr)
		base := x.oblName(cs.fr, fmt.Sprintf("call-pre[%s#%d]", cname, i), cs.pos)
		for pi, pe := range parts {
			t, err := x.evalBool(env.proving(), pe)
			if err != nil {
				x.unsupported(fmt.Sprintf("requires of %s: %v", cname, err))
				continue
			}
			x.check(st, "requires", partName(base, pi, len(parts)), t, fnProps(cs.fr),
				"precondition of "+cname+": "+cl.Text, x.pos(cs.pos))
		}
	}
	// panics_if of the callee must be excluded by the caller
	for i, cl := range c.Clauses {
		if cl.Kind != "panics_if" {
			continue
		}
		t, err := x.evalBool(env, cl.Expr)
		if err != nil {
			x.unsupported(fmt.Sprintf("panics_if of %s: %v", cname, err))
			continue
		}
		x.check(st, "no-panic", x.oblName(cs.fr, fmt.Sprintf("call-nopanic[%s#%d]", cname, i), cs.pos), Not(t), fnProps(cs.fr),
			"callee "+cname+" panics when: "+cl.Text, x.pos(cs.pos))
	}
	old := st.clone()
	// havoc what the callee may modify
	mods := x.funcMods(callee)
	if view != "" && view != "V_" {
		// only the bound view may change
		m2 := newModSet()
		m2.union(mods, false)
		for _, g := range []string{"D_cur", "D_hash", "D_rows", "W_cur", "W_hash", "W_rows"} {
			delete(m2.ghost, g)
		}
		mods = m2
	}
	if c.Opts["trusted"] == "true" && strings.Contains(c.Opts["modifies"], "ext") {
		x.havocExternal(cs, "call")
	} else {
		x.havocMods(cs.fr, st, mods, "call", cs.args...)
	}
	if c.Opts["writes"] == "fresh" {
		// proved on the callee (fresh-write obligations): objects that exist
		// now are left as they are
		var hs []string
		for h := range st.heaps {
			hs = append(hs, h)
		}
		sort.Strings(hs)
		for _, h := range hs {
			oh, ok := old.heaps[h]
			if !ok {
				// not touched before the call: the caller still reads the initial heap
				oh, ok = Term{h + "_init", st.heaps[h].Sort}, true
				x.sc.Decl("heap:"+h, fmt.Sprintf("(declare-const %s %s)", oh.S, oh.Sort))
			}
			if ok && oh.S != st.heaps[h].S && strings.HasPrefix(string(st.heaps[h].Sort), "(Array Int ") {
				x.assume(st, T(SBool, "(forall ((b Int)) (! (=> (select %s b) (= (select %s b) (select %s b))) :pattern ((select %s b))))",
					old.alloc.S, st.heaps[h].S, oh.S, st.heaps[h].S))
			}
		}
	}
	res := x.freshResult(st, "res_"+callee.Name(), cs.res)
	// postconditions
	env2 := &CEnv{x: x, st: st, old: old, vars: map[string]*CV{}, fn: callee, pkg: env.pkg}
	for k, v := range vars {
		env2.vars[k] = v
	}
	x.bindResults(env2, callee, res)
	for _, cl := range c.Clauses {
		if cl.Kind != "ensures" {
			continue
		}
		t, err := x.evalBool(env2.assuming(), cl.Expr)
		if err != nil {
			x.unsupported(fmt.Sprintf("ensures of %s: %v", cname, err))
			continue
		}
		x.assume(st, t)
	}
	x.afterCall(cs, callee.Name(), old)
	if view != "" && view != "V_" {
		for _, n := range []string{"cur", "hash", "rows"} {
			st.ghost[view+n] = st.ghost["V_"+n]
			delete(st.ghost, "V_"+n)
		}
		if view == "D_" {
			x.commitObligations(cs, "autocommit")
		}
	}
	return res
}

// bindResults names the result values for a contract environment.
func (x *Exec) bindResults(env *CEnv, fn *ssa.Function, res *Val) {
	sig := fn.Signature
	n := sig.Results().Len()
	if n == 0 || res == nil {
		return
	}
	var vals []*Val
	if n == 1 {
		vals = []*Val{res}
	} else {
		vals = res.Tuple
	}
	for i := 0; i < n && i < len(vals); i++ {
		r := sig.Results().At(i)
		cv := x.cvOfVal(vals[i])
		cv.Ty = r.Type()
		env.vars[fmt.Sprintf("result%d", i)] = cv
		if r.Name() != "" && r.Name() != "_" {
			env.vars[r.Name()] = cv
		}
		if i == 0 && n == 1 {
			env.vars["result"] = cv
		}
		if i == 0 && n > 1 {
			if _, ok := env.vars["result"]; !ok {
				env.vars["result"] = cv
			}
		}
		if i == n-1 && types.Identical(r.Type(), errorType) {
			if _, ok := env.vars["err"]; !ok {
				env.vars["err"] = cv
			}
		}
	}
}

// ---------------------------------------------------------------------------
// modification sets

type modSet struct {
	heaps     map[string]bool
	allHeaps  bool
	extHeaps  bool // an external call: everything except repository-typed objects that were not passed to it
	cells     map[string]bool
	cellTypes map[string]types.Type
	ghost     map[string]bool
	alloc     bool
	// stores through a pointer parameter of the function itself (field paths
	// only): the object the argument points to, not the whole heap of its type
	params map[int]types.Type
}

func newModSet() *modSet {
	return &modSet{heaps: map[string]bool{}, cells: map[string]bool{}, cellTypes: map[string]types.Type{}, ghost: map[string]bool{}, params: map[int]types.Type{}}
}

func (m *modSet) union(o *modSet, withCells bool) {
	for k := range o.heaps {
		m.heaps[k] = true
	}
	for k := range o.ghost {
		m.ghost[k] = true
	}
	if withCells {
		for k := range o.cells {
			m.cells[k] = true
			m.cellTypes[k] = o.cellTypes[k]
		}
	}
	m.allHeaps = m.allHeaps || o.allHeaps
	m.extHeaps = m.extHeaps || o.extHeaps
	m.alloc = m.alloc || o.alloc
}

func (x *Exec) funcMods(fn *ssa.Function) *modSet {
	if m, ok := x.modCache[fn]; ok {
		return m
	}
	m := newModSet()
	x.modCache[fn] = m // recursion guard: partial result
	if c := x.w.contractOf(fn); c != nil && c.Opts["trusted"] == "true" && c.Opts["modifies"] != "" {
		// trusted contract with a declared frame
		for _, what := range strings.Split(c.Opts["modifies"], ",") {
			switch what {
			case "ext":
				m.extHeaps = true
			case "all":
				m.allHeaps = true
			case "none":
			case "maps":
				for h := range x.heapSorts {
					if strings.HasPrefix(h, "mapdom_") || strings.HasPrefix(h, "mapval_") {
						m.heaps[h] = true
					}
				}
			default:
				m.heaps[what] = true
			}
		}
		m.alloc = true
		return m
	}
	blocks := map[*ssa.BasicBlock]bool{}
	for _, b := range fn.Blocks {
		blocks[b] = true
	}
	full := x.modsOfBlocksFn(fn, blocks)
	m.union(full, false)
	for k, t := range full.params {
		m.params[k] = t
	}
	return m
}

func (x *Exec) modsOfBlocks(fr *Frame, blocks map[*ssa.BasicBlock]bool) *modSet {
	return x.modsOfBlocksFn(fr.fn, blocks)
}

func (x *Exec) modsOfBlocksFn(fn *ssa.Function, blocks map[*ssa.BasicBlock]bool) *modSet {
	m := newModSet()
	for _, b := range fn.Blocks {
		if !blocks[b] {
			continue
		}
		for _, ins := range b.Instrs {
			switch i := ins.(type) {
			case *ssa.Store:
				x.modOfAddr(m, i.Addr)
			case *ssa.MapUpdate:
				mt := i.Map.Type().Underlying().(*types.Map)
				m.heaps[x.mapDomName(mt)] = true
				m.heaps[x.mapValName(mt)] = true
			case *ssa.Alloc:
				if i.Heap {
					m.alloc = true
					elem := i.Type().Underlying().(*types.Pointer).Elem()
					m.heaps[x.heapName(elem)] = true
				} else {
					k := fmt.Sprintf("%s_%s", i.Name(), mangleIdent(i.Comment))
					m.cells[k] = true
					m.cellTypes[k] = i.Type().Underlying().(*types.Pointer).Elem()
				}
			case *ssa.MakeSlice:
				m.alloc = true
				m.heaps[x.heapName(i.Type().Underlying().(*types.Slice).Elem())] = true
			case *ssa.MakeMap:
				m.alloc = true
				mt := i.Type().Underlying().(*types.Map)
				m.heaps[x.mapDomName(mt)] = true
				m.heaps[x.mapValName(mt)] = true
			case *ssa.MakeChan:
				m.alloc = true
			case *ssa.Convert:
				if _, ok := i.Type().Underlying().(*types.Slice); ok {
					m.alloc = true
				}
			case *ssa.Slice:
				if _, ok := i.X.Type().Underlying().(*types.Pointer); ok {
					m.alloc = true
					m.heaps[x.heapName(i.Type().Underlying().(*types.Slice).Elem())] = true
				}
			case *ssa.Next:
				if r, ok := i.Iter.(*ssa.Range); ok {
					k := "iter_" + r.Name()
					m.cells[k] = true
				}
			case *ssa.Range:
				m.cells["iter_"+i.Name()] = true
			case *ssa.Call:
				x.modOfCall(m, i.Common())
			case *ssa.Go:
				x.modOfCall(m, i.Common())
			case *ssa.Defer:
				x.modOfCall(m, i.Common())
			}
		}
	}
	return m
}

func (x *Exec) modOfAddr(m *modSet, addr ssa.Value) {
	switch a := addr.(type) {
	case *ssa.FieldAddr:
		x.modOfAddr(m, a.X)
	case *ssa.IndexAddr:
		switch u := a.X.Type().Underlying().(type) {
		case *types.Slice:
			m.heaps[x.heapName(u.Elem())] = true
		default:
			x.modOfAddr(m, a.X)
		}
	case *ssa.Alloc:
		elem := a.Type().Underlying().(*types.Pointer).Elem()
		if a.Heap {
			m.heaps[x.heapName(elem)] = true
		} else {
			k := fmt.Sprintf("%s_%s", a.Name(), mangleIdent(a.Comment))
			m.cells[k] = true
			m.cellTypes[k] = elem
		}
	case *ssa.Global:
		// globals are cells of frame 0; writes to them are not tracked across calls
	case *ssa.Parameter:
		if pt, ok := a.Type().Underlying().(*types.Pointer); ok && a.Parent() != nil {
			for k, q := range a.Parent().Params {
				if q == a {
					m.params[k] = pt.Elem()
					return
				}
			}
		}
		if pt, ok := addr.Type().Underlying().(*types.Pointer); ok {
			m.heaps[x.heapName(pt.Elem())] = true
		}
	default:
		if pt, ok := addr.Type().Underlying().(*types.Pointer); ok {
			m.heaps[x.heapName(pt.Elem())] = true
		}
	}
}

func (x *Exec) modOfCall(m *modSet, cc *ssa.CallCommon) {
	if cc.IsInvoke() {
		key := types.TypeString(cc.Value.Type(), nil) + "." + cc.Method.Name()
		if gm, ok := ifaceMods[key]; ok {
			gm(x, m)
			return
		}
		if gm, ok := ifaceMods["*."+cc.Method.Name()]; ok {
			gm(x, m)
			return
		}
		m.extHeaps = true
		m.alloc = true
		return
	}
	// function values passed as arguments may be called by the callee (errgroup.Go, sort, ...)
	for _, a := range cc.Args {
		switch f := a.(type) {
		case *ssa.MakeClosure:
			m.union(x.funcMods(f.Fn.(*ssa.Function)), false)
		case *ssa.Function:
			if x.inlinableStatic(f) {
				m.union(x.funcMods(f), false)
			}
		}
	}
	// memory passed to the call (one to three pointer/slice levels) may be written by an external callee
	notePassed := func() {
		for _, a := range cc.Args {
			t := a.Type()
			if mi, ok := a.(*ssa.MakeInterface); ok {
				t = mi.X.Type()
			}
			for depth := 0; depth < 3 && t != nil; depth++ {
				switch u := t.Underlying().(type) {
				case *types.Pointer:
					m.heaps[x.heapName(u.Elem())] = true
					t = u.Elem()
				case *types.Slice:
					m.heaps[x.heapName(u.Elem())] = true
					t = u.Elem()
				default:
					t = nil
				}
			}
		}
	}
	if cc.IsInvoke() {
		notePassed()
	} else if f, ok := cc.Value.(*ssa.Function); ok && !x.inlinableStatic(f) && x.w.contractOf(f) == nil {
		if _, modelled := libModels[funcKey(f)]; !modelled {
			notePassed()
		}
	} else if f, ok := cc.Value.(*ssa.Function); ok {
		if c := x.w.contractOf(f); c != nil && c.Opts["trusted"] == "true" && strings.Contains(c.Opts["modifies"], "ext") {
			notePassed()
		}
	}
	switch callee := cc.Value.(type) {
	case *ssa.Builtin:
		switch callee.Name() {
		case "append", "copy", "clear":
			if sl, ok := cc.Args[0].Type().Underlying().(*types.Slice); ok {
				m.heaps[x.heapName(sl.Elem())] = true
			}
			if mt, ok := cc.Args[0].Type().Underlying().(*types.Map); ok {
				m.heaps[x.mapDomName(mt)] = true
			}
			m.alloc = true
		case "delete":
			mt := cc.Args[0].Type().Underlying().(*types.Map)
			m.heaps[x.mapDomName(mt)] = true
		}
	case *ssa.Function:
		if c := x.w.contractOf(callee); c != nil && c.Opts["conn"] != "" {
			// the callee acts on the database view behind one connection argument
			sub := newModSet()
			x.modOfFunc(sub, callee, cc.Args...)
			for i, p := range callee.Params {
				if p.Name() == c.Opts["conn"] && i < len(cc.Args) {
					restrictView(sub, connKind(cc.Args[i]))
				}
			}
			m.union(sub, false)
			return
		}
		x.modOfFunc(m, callee, cc.Args...)
	case *ssa.MakeClosure:
		x.modOfFunc(m, callee.Fn.(*ssa.Function), cc.Args...)
	default:
		// dynamic
		if isContextCancel(cc.Value) {
			return
		}
		if u, ok := cc.Value.(*ssa.UnOp); ok {
			if target := staticClosureTarget(u); target != nil {
				x.modOfFunc(m, target)
				return
			}
		}
		if n := dynName(cc.Value); n != "" {
			m.ghost["called_"+n] = true
		}
		m.allHeaps = true
		m.alloc = true
	}
}

func (x *Exec) modOfFunc(m *modSet, callee *ssa.Function, args ...ssa.Value) {
	key := funcKey(callee)
	if gm, ok := libMods[key]; ok {
		gm(x, m, callee)
		return
	}
	if _, ok := libModels[key]; ok {
		return // modelled as pure
	}
	if strings.HasPrefix(key, "github.com/indexsupply/shovel/wctx.") {
		return
	}
	if x.w.contractOf(callee) != nil || x.inlinableStatic(callee) {
		cm := x.funcMods(callee)
		m.union(cm, false)
		// what the callee writes through its pointer parameters, seen from here
		for k, elem := range cm.params {
			if k < len(args) {
				x.modOfAddr(m, args[k])
			} else {
				m.heaps[x.heapName(elem)] = true
			}
		}
		// closures passed as arguments are called by the callee model (errgroup etc.) – handled in libMods
		return
	}
	if pureFuncs[key] || strings.HasPrefix(key, "log/slog.") || strings.HasPrefix(key, "(*log/slog.") ||
		strings.HasPrefix(key, "time.") || strings.HasPrefix(key, "(time.") || strings.HasPrefix(key, "fmt.") ||
		strings.HasPrefix(key, "strconv.") || strings.HasPrefix(key, "strings.") || strings.HasPrefix(key, "unicode.") {
		return
	}
	m.extHeaps = true
	m.alloc = true
}

func (x *Exec) inlinableStatic(fn *ssa.Function) bool {
	if len(fn.Blocks) == 0 {
		return false
	}
	pkg := fn.Pkg
	if pkg == nil && fn.Parent() != nil {
		pkg = fn.Parent().Pkg
	}
	if pkg == nil {
		if o := fn.Origin(); o != nil && o.Pkg != nil {
			pkg = o.Pkg
		} else {
			return fn.Synthetic != ""
		}
	}
	return strings.HasPrefix(pkg.Pkg.Path(), "github.com/indexsupply/shovel")
}

func (x *Exec) noteStore(fr *Frame, st *State, loc *Loc, p token.Pos) {}

// connKind classifies a connection argument statically: "tx" (a pgx.Tx value),
// "pool" (*pgxpool.Pool) or "" (unknown wpg.Conn).
func connKind(v ssa.Value) string {
	for {
		switch u := v.(type) {
		case *ssa.ChangeInterface:
			v = u.X
			continue
		case *ssa.MakeInterface:
			v = u.X
			continue
		}
		break
	}
	ts := types.TypeString(v.Type(), nil)
	switch {
	case strings.HasSuffix(ts, "pgx/v5.Tx"):
		return "tx"
	case strings.HasSuffix(ts, "pgxpool.Pool"):
		return "pool"
	}
	return ""
}

func restrictView(m *modSet, kind string) {
	var drop []string
	switch kind {
	case "tx":
		drop = []string{"D_cur", "D_hash", "D_rows"}
	case "pool":
		drop = []string{"W_cur", "W_hash", "W_rows"}
	}
	for _, g := range drop {
		delete(m.ghost, g)
	}
}

// dynName: source name of a function value that is a parameter or a captured variable.
func dynName(v ssa.Value) string {
	switch u := v.(type) {
	case *ssa.Parameter:
		return u.Name()
	case *ssa.FreeVar:
		return u.Name()
	case *ssa.UnOp:
		if fv, ok := u.X.(*ssa.FreeVar); ok {
			return fv.Name()
		}
	}
	return ""
}

// havocExternal: effect of a call into code outside the verified text. It may
// change any memory except objects whose type is declared in this repository
// and that are not reachable from an argument (one pointer/slice level).
func (x *Exec) havocExternal(cs *callSite, why string) {
	st := cs.st
	passed := map[string]bool{}
	note := func(t types.Type) {
		for depth := 0; depth < 3 && t != nil; depth++ {
			switch u := t.Underlying().(type) {
			case *types.Pointer:
				passed[x.heapName(u.Elem())] = true
				t = u.Elem()
			case *types.Slice:
				passed[x.heapName(u.Elem())] = true
				t = u.Elem()
			default:
				t = nil
			}
		}
	}
	for _, a := range cs.cc.Args {
		if mi, ok := a.(*ssa.MakeInterface); ok {
			note(mi.X.Type())
			continue
		}
		note(a.Type())
	}
	if cs.cc.IsInvoke() {
		note(cs.cc.Value.Type())
	}
	for _, h := range sortedHeapNames(x.heapSorts) {
		if t, ok := x.heapTypes[h]; ok && !passed[h] {
			if n, ok := t.(*types.Named); ok && n.Obj().Pkg() != nil && strings.HasPrefix(n.Obj().Pkg().Path(), repoMod) {
				continue
			}
			if p, ok := t.(*types.Pointer); ok {
				if n, ok := p.Elem().(*types.Named); ok && n.Obj().Pkg() != nil && strings.HasPrefix(n.Obj().Pkg().Path(), repoMod) {
					continue
				}
			}
		}
		st.heaps[h] = x.sc.Fresh(h+"_"+why, x.heapSorts[h])
	}
	na := x.sc.Fresh("alloc_"+why, st.alloc.Sort)
	x.sc.Assume(T(SBool, "(forall ((a Int)) (! (=> (select %s a) (select %s a)) :pattern ((select %s a))))", st.alloc.S, na.S, na.S))
	st.alloc = na
}

// atCall checks the `atcall <callee> assert <expr>` clauses of the function under verification.
func (x *Exec) atCall(cs *callSite, callee *ssa.Function) {
	c := x.w.contractOf(cs.fr.fn)
	if c == nil {
		return
	}
	short := callee.Name()
	for i, cl := range c.Clauses {
		if cl.Kind != "atcall" || (cl.Opt != short && cl.Opt != relFuncName(callee)) {
			continue
		}
		env := x.contractEnv(cs.fr, cs.st)
		x.bindLiveNames(env, cs.fr, cs.st)
		for k, a := range cs.args {
			cv := x.cvOfVal(a)
			if k < len(cs.cc.Args) {
				cv.Ty = cs.cc.Args[k].Type()
			}
			env.vars[fmt.Sprintf("arg%d", k)] = cv
		}
		t, err := x.evalBool(env, cl.Expr)
		if x.atcallHits == nil {
			x.atcallHits = map[*Clause]int{}
		}
		if err != nil {
			// a clause naming a variable of one loop only (taidx, lidx) applies to the
			// call sites inside that loop; it has to apply somewhere (checked at the end)
			if strings.Contains(err.Error(), "unknown identifier") {
				x.atcallHits[cl] += 0
				continue
			}
			x.unsupported("atcall clause: " + err.Error())
			continue
		}
		x.atcallHits[cl]++
		name := fmt.Sprintf("atcall[%s#%d]", short, i)
		if cl.Name != "" {
			name = fmt.Sprintf("atcall[%s:%s]", short, cl.Name)
		}
		x.check(cs.st, "assert", x.oblName(cs.fr, name, cs.pos), t, clauseProps(cs.fr, cl), cl.Text, x.pos(cs.pos))
	}
}

// isContextCancel: the cancel function returned by context.WithTimeout/WithCancel/WithDeadline.
func isContextCancel(v ssa.Value) bool {
	ex, ok := v.(*ssa.Extract)
	if !ok {
		return false
	}
	call, ok := ex.Tuple.(*ssa.Call)
	if !ok {
		return false
	}
	fn, ok := call.Call.Value.(*ssa.Function)
	if !ok {
		return false
	}
	switch fn.String() {
	case "context.WithTimeout", "context.WithCancel", "context.WithDeadline":
		return ex.Index == 1
	}
	return false
}
