package main

// Evaluation of contract expressions to SMT terms in a program state.

import (
	"fmt"
	"go/token"
	"go/types"
	"math/big"
	"os"
	"regexp"
	"strings"

	"golang.org/x/tools/go/ssa"
)

type CV struct {
	T     Term
	Ty    types.Type
	Loc   *Loc // pointer value with known location
	Const *big.Int
	IsNil bool
	Val   *Val
	Addr  *Loc // for named variables living in memory: where they live
	// conditional between two untyped constants: sort chosen by the context
	CondC        Term
	CondA, CondB *big.Int
	Lazy         bool // a variable living in memory: (re)loaded from the state the expression is evaluated in
}

type CEnv struct {
	x         *Exec
	st        *State
	old       *State
	loopEntry *State
	vars      map[string]*CV
	pkg       *types.Package
	fn        *ssa.Function
	specHeaps map[string]bool // when compiling a spec function: heaps read
	inSpec    bool
	noUnfold  bool
	oldVars   map[string]*CV // entry-time bindings (parameters), used by old()
	// witness propagation: role +1 = this subformula is a fact being assumed
	// (its existentials are skolemised with named functions), -1 = it has to be
	// established (its existentials are offered the named skolem terms and the
	// witness hints as extra disjuncts, an equivalent formula), 0 = neither.
	fr   *Frame
	role int
	univ []Term // enclosing universally bound variables usable as skolem arguments
}

func (env *CEnv) withRole(r int) *CEnv {
	e := *env
	e.role = r
	return &e
}

// assuming / proving mark how the formula built from this environment is used.
func (env *CEnv) assuming() *CEnv { e := env.withRole(1); e.univ = nil; return e }
func (env *CEnv) proving() *CEnv  { e := env.withRole(-1); e.univ = nil; return e }

type skolemFn struct {
	name string
	args []Sort
	ret  Sort
	lits map[string]bool // string literals in the body it was introduced for
}

var strlitRe = regexp.MustCompile(`strlit_[0-9]+_[A-Za-z0-9_]*`)

func litsOf(s string) map[string]bool {
	m := map[string]bool{}
	for _, l := range strlitRe.FindAllString(s, -1) {
		if l != "strlit_0_" {
			m[l] = true
		}
	}
	return m
}

// replaceToken substitutes whole SMT symbols only.
func replaceToken(s, name, by string) string {
	var b strings.Builder
	for i := 0; i < len(s); {
		j := strings.Index(s[i:], name)
		if j < 0 {
			b.WriteString(s[i:])
			break
		}
		j += i
		end := j + len(name)
		okL := j == 0 || strings.ContainsRune(" ()", rune(s[j-1]))
		okR := end == len(s) || strings.ContainsRune(" ()", rune(s[end]))
		b.WriteString(s[i:j])
		if okL && okR {
			b.WriteString(by)
		} else {
			b.WriteString(name)
		}
		i = end
	}
	return b.String()
}

func (x *Exec) cvOfVal(v *Val) *CV {
	cv := &CV{Ty: v.Ty, Val: v}
	if v.Loc != nil {
		cv.Loc = v.Loc
	}
	if v.T.S != "" {
		cv.T = v.T
	}
	return cv
}

// contractEnv builds the name environment of a frame: parameters, free
// variables and named allocs (locals whose address is taken).
func (x *Exec) contractEnv(fr *Frame, st *State) *CEnv {
	env := &CEnv{x: x, st: st, old: fr.entry, vars: map[string]*CV{}, pkg: fr.pkg, fn: fr.fn, fr: fr}
	for _, p := range fr.fn.Params {
		if v, ok := fr.env[p]; ok {
			cv := x.cvOfVal(v)
			cv.Ty = p.Type()
			env.vars[p.Name()] = cv
		}
	}
	for _, p := range fr.fn.FreeVars {
		if v, ok := fr.env[p]; ok {
			// free variables are pointers to the captured variable: expose the variable itself
			cv := x.cvOfVal(v)
			cv.Ty = p.Type()
			env.vars["&"+p.Name()] = cv
			if pt, ok := p.Type().Underlying().(*types.Pointer); ok {
				loc := x.locOfCV(cv, pt.Elem())
				if loc != nil {
					env.vars[p.Name()] = &CV{T: x.load(st, loc), Ty: pt.Elem(), Addr: loc, Lazy: true}
				}
			}
		}
	}
	env.oldVars = map[string]*CV{}
	for k, v := range env.vars {
		env.oldVars[k] = v
	}
	for name, v := range fr.names {
		if _, ok := env.vars[name]; ok {
			continue
		}
		if v.Loc != nil {
			env.vars[name] = &CV{T: x.load(st, v.Loc), Ty: v.Loc.T, Addr: v.Loc, Lazy: true}
		}
	}
	// plain SSA values that carry a source name (single assignment), via DebugRef
	for name, v := range fr.debugNames {
		if _, ok := env.vars[name]; ok {
			continue
		}
		if val, ok := fr.env[v]; ok {
			cv := x.cvOfVal(val)
			cv.Ty = v.Type()
			env.vars[name] = cv
		}
	}
	return env
}

func (x *Exec) locOfCV(cv *CV, elem types.Type) *Loc {
	if cv.Loc != nil {
		return cv.Loc
	}
	if cv.T.S == "" {
		return nil
	}
	return x.locOfPtr(cv.T, elem)
}

func (x *Exec) flushEnvChecks(env *CEnv, st *State, name string, c *Clause) {}

func (x *Exec) evalBool(env *CEnv, e CExpr) (Term, error) {
	cv, err := x.eval(env, e)
	if err != nil {
		return Term{}, err
	}
	if cv.T.Sort != SBool {
		return Term{}, fmt.Errorf("expected a boolean expression, got sort %s", cv.T.Sort)
	}
	return cv.T, nil
}

// cvTerm materialises a contract value; untyped constants take the sort of `like`.
func (x *Exec) cvTerm(cv *CV, like *CV) Term {
	if cv.CondA != nil && cv.T.S == "" {
		return Ite(cv.CondC, x.cvTerm(&CV{Const: cv.CondA}, like), x.cvTerm(&CV{Const: cv.CondB}, like))
	}
	if cv.Const != nil && cv.T.S == "" {
		w := 64
		if like != nil && like.T.S != "" && like.T.Sort.BVWidth() > 0 {
			w = like.T.Sort.BVWidth()
		} else if like != nil && like.T.Sort == SInt {
			return IntConst(cv.Const.Int64())
		}
		return bigBV(cv.Const, w)
	}
	if cv.IsNil && cv.T.S == "" {
		if like != nil && like.Ty != nil {
			return x.zeroOf(like.Ty)
		}
		return Term{"pnil", SPtr}
	}
	if cv.T.S == "" && cv.Loc != nil {
		return x.ptrTerm(cv.Loc)
	}
	if cv.T.S == "" && cv.Val != nil {
		return x.term(cv.Val)
	}
	return cv.T
}

func bigBV(v *big.Int, w int) Term {
	m := new(big.Int).Lsh(big.NewInt(1), uint(w))
	r := new(big.Int).Mod(v, m)
	if r.Sign() < 0 {
		r.Add(r, m)
	}
	if w%4 == 0 {
		return Term{fmt.Sprintf("#x%0*s", w/4, r.Text(16)), BVSort(w)}
	}
	return Term{fmt.Sprintf("(_ bv%s %d)", r.String(), w), BVSort(w)}
}

func tokOf(op string) token.Token {
	switch op {
	case "+":
		return token.ADD
	case "-":
		return token.SUB
	case "*":
		return token.MUL
	case "/":
		return token.QUO
	case "%":
		return token.REM
	case "&":
		return token.AND
	case "|":
		return token.OR
	case "^":
		return token.XOR
	case "&^":
		return token.AND_NOT
	case "<<":
		return token.SHL
	case ">>":
		return token.SHR
	case "==":
		return token.EQL
	case "!=":
		return token.NEQ
	case "<":
		return token.LSS
	case "<=":
		return token.LEQ
	case ">":
		return token.GTR
	case ">=":
		return token.GEQ
	}
	return token.ILLEGAL
}

func (x *Exec) eval(env *CEnv, e CExpr) (*CV, error) {
	if env.role != 0 {
		// roles survive only through the connectives whose polarity is tracked
		keep := false
		switch n := e.(type) {
		case *CQuant, *CAll, *CAnyTable:
			keep = true
		case *CBin:
			keep = n.Op == "&&" || n.Op == "||" || n.Op == "==>"
		case *CUn:
			keep = n.Op == "!"
		case *CCall:
			// old(..)/pre(..) only switch the state; a plain (non-recursive,
			// non-opaque) spec function is expanded in place so that the
			// existentials of its body take part in witness propagation
			if n.Fun == "old" || n.Fun == "pre" {
				keep = true
			} else if sp := x.w.findSpec(env.pkg, n.Fun); sp != nil && !sp.Rec && !sp.Opaque && sp.Body != nil && !env.inSpec && env.specHeaps == nil {
				keep = true
			}
		}
		if !keep {
			env = env.withRole(0)
		}
	}
	switch n := e.(type) {
	case *CInt:
		return &CV{Const: n.V}, nil
	case *CBool:
		if n.V {
			return &CV{T: TTrue, Ty: types.Typ[types.Bool]}, nil
		}
		return &CV{T: TFalse, Ty: types.Typ[types.Bool]}, nil
	case *CStr:
		return &CV{T: x.strLit(n.V), Ty: types.Typ[types.String]}, nil
	case *CNil:
		return &CV{IsNil: true}, nil
	case *CIdent:
		if v, ok := env.vars[n.Name]; ok {
			if v.Lazy && v.Addr != nil && (v.Addr.Kind != LCell || hasCell(env.st, v.Addr)) {
				return &CV{T: x.load(env.st, v.Addr), Ty: v.Ty, Addr: v.Addr, Lazy: true}, nil
			}
			return v, nil
		}
		if g, ok := env.st.ghost[n.Name]; ok {
			return &CV{T: g}, nil
		}
		// package-level constants and variables
		if env.pkg != nil {
			if obj := env.pkg.Scope().Lookup(n.Name); obj != nil {
				switch o := obj.(type) {
				case *types.Const:
					c := ssa.NewConst(o.Val(), o.Type())
					v := x.constVal(c)
					return &CV{T: v.T, Ty: o.Type()}, nil
				case *types.Var:
					if sp := x.w.prog.Package(env.pkg); sp != nil {
						if g, ok := sp.Members[n.Name].(*ssa.Global); ok {
							return &CV{T: x.globalInit(env.st, g), Ty: o.Type()}, nil
						}
					}
				}
			}
		}
		return nil, fmt.Errorf("unknown identifier %q", n.Name)
	case *CUn:
		return x.evalUn(env, n)
	case *CBin:
		return x.evalBin(env, n)
	case *CCond:
		c, err := x.evalBool(env, n.C)
		if err != nil {
			return nil, err
		}
		a, err := x.eval(env, n.A)
		if err != nil {
			return nil, err
		}
		b, err := x.eval(env, n.B)
		if err != nil {
			return nil, err
		}
		if a.Const != nil && b.Const != nil && a.T.S == "" && b.T.S == "" {
			return &CV{CondC: c, CondA: a.Const, CondB: b.Const}, nil
		}
		at, bt := x.cvTerm(a, b), x.cvTerm(b, a)
		ty := a.Ty
		if ty == nil {
			ty = b.Ty
		}
		return &CV{T: Ite(c, at, bt), Ty: ty}, nil
	case *CQuant:
		return x.evalQuant(env, n)
	case *CAnyTable:
		pkg := ""
		if env.pkg != nil {
			pkg = env.pkg.Path()
		}
		tbl, ok := x.w.stringTable(pkg, n.Table)
		if !ok {
			tbl, ok = x.w.stringTable(repoMod+"/shovel/glf", n.Table)
		}
		if !ok {
			return nil, fmt.Errorf("anytable: no constant string table %q", n.Table)
		}
		var ds []Term
		for _, lit := range tbl {
			inner := *env
			inner.vars = map[string]*CV{}
			for kk, v := range env.vars {
				inner.vars[kk] = v
			}
			inner.vars[n.Var] = &CV{T: x.strLit(lit), Ty: types.Typ[types.String]}
			t, err := x.evalBool(&inner, n.Body)
			if err != nil {
				return nil, err
			}
			ds = append(ds, t)
		}
		return &CV{T: Or(ds...), Ty: types.Typ[types.Bool]}, nil
	case *CAll:
		var cs []Term
		for k := n.Lo; k <= n.Hi; k++ {
			inner := *env
			inner.vars = map[string]*CV{}
			for kk, v := range env.vars {
				inner.vars[kk] = v
			}
			inner.vars[n.Var] = &CV{Const: big.NewInt(k)}
			t, err := x.evalBool(&inner, n.Body)
			if err != nil {
				return nil, err
			}
			cs = append(cs, t)
		}
		return &CV{T: And(cs...), Ty: types.Typ[types.Bool]}, nil
	case *CCall:
		return x.evalCall(env, n)
	case *CIndex:
		return x.evalIndex(env, n)
	case *CSlice:
		return x.evalSlice(env, n)
	case *CSel:
		return x.evalSel(env, n)
	}
	return nil, fmt.Errorf("unsupported contract expression %T", e)
}

func (x *Exec) evalUn(env *CEnv, n *CUn) (*CV, error) {
	if n.Op == "!" && env.role != 0 {
		env = env.withRole(-env.role)
	}
	v, err := x.eval(env, n.X)
	if err != nil {
		return nil, err
	}
	switch n.Op {
	case "!":
		if v.T.Sort != SBool {
			return nil, fmt.Errorf("! on non-boolean")
		}
		return &CV{T: Not(v.T), Ty: v.Ty}, nil
	case "-":
		if v.Const != nil {
			return &CV{Const: new(big.Int).Neg(v.Const)}, nil
		}
		return &CV{T: App(v.T.Sort, "bvneg", v.T), Ty: v.Ty}, nil
	case "^":
		if v.Const != nil {
			return &CV{Const: new(big.Int).Not(v.Const)}, nil
		}
		return &CV{T: App(v.T.Sort, "bvnot", v.T), Ty: v.Ty}, nil
	case "*":
		pt, ok := v.Ty.Underlying().(*types.Pointer)
		if !ok {
			return nil, fmt.Errorf("* on non-pointer %v", v.Ty)
		}
		loc := x.locOfCV(v, pt.Elem())
		if env.specHeaps != nil {
			env.specHeaps[x.heapName(pt.Elem())] = true
		}
		return &CV{T: x.load(env.st, loc), Ty: pt.Elem()}, nil
	}
	return nil, fmt.Errorf("unary %s", n.Op)
}

func (x *Exec) evalBin(env *CEnv, n *CBin) (*CV, error) {
	switch n.Op {
	case "&&", "||", "==>", "<==>":
		lenv := env
		if n.Op == "==>" && env.role != 0 {
			lenv = env.withRole(-env.role)
		}
		if n.Op == "<==>" && env.role != 0 {
			env = env.withRole(0)
			lenv = env
		}
		a, err := x.evalBool(lenv, n.X)
		if err != nil {
			return nil, err
		}
		b, err := x.evalBool(env, n.Y)
		if err != nil {
			return nil, err
		}
		var t Term
		switch n.Op {
		case "&&":
			t = And(a, b)
		case "||":
			t = Or(a, b)
		case "==>":
			t = Implies(a, b)
		default:
			t = Eq(a, b)
		}
		return &CV{T: t, Ty: types.Typ[types.Bool]}, nil
	}
	a, err := x.eval(env, n.X)
	if err != nil {
		return nil, err
	}
	b, err := x.eval(env, n.Y)
	if err != nil {
		return nil, err
	}
	op := tokOf(n.Op)
	// constant folding
	if a.Const != nil && b.Const != nil {
		r := new(big.Int)
		switch n.Op {
		case "+":
			return &CV{Const: r.Add(a.Const, b.Const)}, nil
		case "-":
			return &CV{Const: r.Sub(a.Const, b.Const)}, nil
		case "*":
			return &CV{Const: r.Mul(a.Const, b.Const)}, nil
		case "<<":
			return &CV{Const: r.Lsh(a.Const, uint(b.Const.Uint64()))}, nil
		case ">>":
			return &CV{Const: r.Rsh(a.Const, uint(b.Const.Uint64()))}, nil
		case "/":
			return &CV{Const: r.Quo(a.Const, b.Const)}, nil
		case "==", "!=", "<", "<=", ">", ">=":
			c := a.Const.Cmp(b.Const)
			var res bool
			switch n.Op {
			case "==":
				res = c == 0
			case "!=":
				res = c != 0
			case "<":
				res = c < 0
			case "<=":
				res = c <= 0
			case ">":
				res = c > 0
			default:
				res = c >= 0
			}
			if res {
				return &CV{T: TTrue, Ty: types.Typ[types.Bool]}, nil
			}
			return &CV{T: TFalse, Ty: types.Typ[types.Bool]}, nil
		}
	}
	// nil comparisons
	if (a.IsNil || b.IsNil) && (op == token.EQL || op == token.NEQ) {
		o := a
		if a.IsNil {
			o = b
		}
		var eq Term
		ot := x.cvTerm(o, nil)
		switch ot.Sort {
		case SSlice:
			eq = Eq(sBase(ot), IntConst(0))
		case SPtr:
			eq = Eq(ot, Term{"pnil", SPtr})
		case SIface:
			eq = Eq(ot, Term{"inil", SIface})
		case SInt:
			eq = Eq(ot, IntConst(0))
		case "Fn":
			eq = Eq(ot, Term{"fn_nil", "Fn"})
		default:
			return nil, fmt.Errorf("nil comparison on sort %s", ot.Sort)
		}
		if op == token.NEQ {
			eq = Not(eq)
		}
		return &CV{T: eq, Ty: types.Typ[types.Bool]}, nil
	}
	at, bt := x.cvTerm(a, b), x.cvTerm(b, a)
	ty := a.Ty
	if ty == nil || a.Const != nil {
		ty = b.Ty
	}
	if ty == nil {
		// both sides untyped w.r.t. Go (e.g. ghost terms): derive from sort
		ty = typeOfSort(at.Sort)
	}
	if at.Sort == SInt && bt.Sort == SInt {
		return x.intBin(n.Op, at, bt)
	}
	if (op == token.SHL || op == token.SHR) && a.Const == nil {
		tb := b.Ty
		if tb == nil {
			tb = types.Typ[types.Uint]
			bt = x.cvTerm(b, &CV{T: bv64(0)})
		}
		t := x.binop(nil, op, at, bt, ty, tb, token.NoPos)
		return &CV{T: t, Ty: ty}, nil
	}
	if at.Sort != bt.Sort {
		return nil, fmt.Errorf("operand sorts differ in %q: %s vs %s", n.Op, at.Sort, bt.Sort)
	}
	t := x.binop(nil, op, at, bt, ty, ty, token.NoPos)
	rt := ty
	if t.Sort == SBool {
		rt = types.Typ[types.Bool]
	}
	return &CV{T: t, Ty: rt}, nil
}

func typeOfSort(s Sort) types.Type {
	switch s {
	case SBool:
		return types.Typ[types.Bool]
	case SStr:
		return types.Typ[types.String]
	}
	switch s.BVWidth() {
	case 8:
		return types.Typ[types.Uint8]
	case 16:
		return types.Typ[types.Uint16]
	case 32:
		return types.Typ[types.Uint32]
	case 64:
		return types.Typ[types.Uint64]
	}
	return types.Typ[types.Invalid]
}

func (x *Exec) intBin(op string, a, b Term) (*CV, error) {
	switch op {
	case "+", "-", "*":
		return &CV{T: App(SInt, op, a, b)}, nil
	case "==":
		return &CV{T: Eq(a, b), Ty: types.Typ[types.Bool]}, nil
	case "!=":
		return &CV{T: Not(Eq(a, b)), Ty: types.Typ[types.Bool]}, nil
	case "<", "<=", ">", ">=":
		return &CV{T: App(SBool, op, a, b), Ty: types.Typ[types.Bool]}, nil
	}
	return nil, fmt.Errorf("operator %s on mathematical integers", op)
}

func (x *Exec) resolveType(env *CEnv, s string) (types.Type, error) {
	s = strings.TrimSpace(s)
	switch s {
	case "mathint":
		return nil, nil
	}
	if env.pkg == nil {
		return nil, fmt.Errorf("no package to resolve type %q", s)
	}
	tv, err := types.Eval(x.w.prog.Fset, env.pkg, token.NoPos, s)
	if err != nil {
		// try universe / imported packages via a qualified name
		if i := strings.LastIndex(s, "."); i > 0 {
			pn, tn := s[:i], s[i+1:]
			prefix := ""
			for strings.HasPrefix(pn, "*") || strings.HasPrefix(pn, "[]") {
				if strings.HasPrefix(pn, "*") {
					prefix += "*"
					pn = pn[1:]
				} else {
					prefix += "[]"
					pn = pn[2:]
				}
			}
			for _, p := range x.w.prog.AllPackages() {
				if p.Pkg.Name() == pn {
					if obj := p.Pkg.Scope().Lookup(tn); obj != nil {
						t := obj.Type()
						for i := len(prefix); i > 0; {
							if strings.HasSuffix(prefix[:i], "[]") {
								t = types.NewSlice(t)
								i -= 2
							} else {
								t = types.NewPointer(t)
								i--
							}
						}
						return t, nil
					}
				}
			}
		}
		return nil, fmt.Errorf("cannot resolve type %q: %v", s, err)
	}
	return tv.Type, nil
}

var nQuant int

var maxCands = func() int {
	if v := os.Getenv("VC_CANDS"); v != "" {
		var n int
		fmt.Sscan(v, &n)
		return n
	}
	return 64
}()

func (x *Exec) evalQuant(env *CEnv, n *CQuant) (*CV, error) {
	inner := *env
	inner.vars = map[string]*CV{}
	for k, v := range env.vars {
		inner.vars[k] = v
	}
	var binders []string
	var guards []Term
	for _, v := range n.Vars {
		nQuant++
		name := fmt.Sprintf("%s!q%d", v.Name, nQuant)
		var srt Sort
		var ty types.Type
		if ps, ok := pseudoSorts[v.Type]; ok {
			srt = ps
		} else {
			t, err := x.resolveType(env, v.Type)
			if err != nil {
				return nil, err
			}
			ty = t
			srt = x.sortOf(t)
		}
		binders = append(binders, fmt.Sprintf("(%s %s)", name, srt))
		inner.vars[v.Name] = &CV{T: Term{name, srt}, Ty: ty}
	}
	// witness propagation (see CEnv.role)
	universal := (n.Forall && env.role == 1) || (n.Forall && env.role == -1)
	skolemise := (!n.Forall && env.role == 1) || (n.Forall && false)
	offer := !n.Forall && env.role == -1
	switch {
	case universal:
		inner.univ = append([]Term(nil), env.univ...)
		for _, v := range n.Vars {
			inner.univ = append(inner.univ, inner.vars[v.Name].T)
		}
	case skolemise:
		// keep role and univ: nested facts stay facts
	default:
		inner.role = 0
		inner.univ = nil
	}
	if skolemise {
		var as []Sort
		var at []string
		for _, u := range env.univ {
			as = append(as, u.Sort)
			at = append(at, u.S)
		}
		for _, v := range n.Vars {
			cv := inner.vars[v.Name]
			x.nSkolem++
			sk := fmt.Sprintf("sk!%s!%d", v.Name, x.nSkolem)
			var ss []string
			for _, s := range as {
				ss = append(ss, string(s))
			}
			x.sc.Decl("skolem:"+sk, fmt.Sprintf("(declare-fun %s (%s) %s)", sk, strings.Join(ss, " "), cv.T.Sort))
			app := sk
			if len(at) > 0 {
				app = "(" + sk + " " + strings.Join(at, " ") + ")"
			}
			x.skolems = append(x.skolems, skolemFn{name: sk, args: as, ret: cv.T.Sort})
			inner.vars[v.Name] = &CV{T: Term{app, cv.T.Sort}, Ty: cv.Ty}
		}
		first := len(x.skolems) - len(n.Vars)
		body, err := x.evalBool(&inner, n.Body)
		if err != nil {
			return nil, err
		}
		for k := first; k < first+len(n.Vars) && k < len(x.skolems); k++ {
			x.skolems[k].lits = litsOf(body.S)
		}
		return &CV{T: body, Ty: types.Typ[types.Bool]}, nil
	}
	body, err := x.evalBool(&inner, n.Body)
	if err != nil {
		return nil, err
	}
	var offered []Term
	if offer && len(n.Vars) == 1 {
		vname := inner.vars[n.Vars[0].Name].T
		var cands []string
		var at []string
		for _, u := range env.univ {
			at = append(at, u.S)
		}
		goalLits := litsOf(body.S)
		for _, sk := range x.skolems {
			if sk.ret != vname.Sort || len(sk.args) != len(env.univ) {
				continue
			}
			// relevance: a witness introduced for a fact about other string
			// constants than this goal mentions is no candidate
			if len(sk.lits) > 0 && len(goalLits) > 0 {
				shared := false
				for l := range sk.lits {
					shared = shared || goalLits[l]
				}
				if !shared {
					continue
				}
			}
			same := true
			for i := range sk.args {
				same = same && sk.args[i] == env.univ[i].Sort
			}
			if !same {
				continue
			}
			if len(at) > 0 {
				cands = append(cands, "("+sk.name+" "+strings.Join(at, " ")+")")
			} else {
				cands = append(cands, sk.name)
			}
		}
		if len(cands) > maxCands {
			cands = cands[len(cands)-maxCands:]
		}
		wenv := inner.withRole(0)
		wenv.vars = map[string]*CV{}
		for k, v := range inner.vars {
			wenv.vars[k] = v
		}
		// "_" in a hint stands for each offered skolem term
		const hole = "witness!hole"
		wenv.vars["_"] = &CV{T: Term{hole, vname.Sort}, Ty: inner.vars[n.Vars[0].Name].Ty}
		skc := append([]string(nil), cands...)
		for _, w := range n.Witness {
			cv, err := x.eval(wenv, w)
			if err != nil {
				continue // a hint naming something not in scope at this point is no candidate here
			}
			ts := x.cvTerm(cv, inner.vars[n.Vars[0].Name]).S
			if strings.Contains(ts, hole) {
				for _, c := range skc {
					if ts != hole {
						cands = append(cands, replaceToken(ts, hole, c))
					}
				}
				continue
			}
			cands = append(cands, ts)
		}
		for _, c := range cands {
			offered = append(offered, Term{replaceToken(body.S, vname.S, c), SBool})
		}
	}
	_ = guards
	q := "forall"
	if !n.Forall {
		q = "exists"
	}
	bs := body.S
	// absolute-index form: when a bound variable k occurs as a slice index only
	// in the shape (bvadd OFF k), quantify over a = OFF + k instead (a bijection
	// on 64-bit vectors). Triggers then are plain (select A a), which survive
	// the solvers' arithmetic normalisation.
	// explicit trigger: an application of an opaque spec function that has all
	// bound variables as direct arguments (avoids matching loops on chains
	// like blocks[k] / blocks[k-1])
	var qnames []string
	for _, v := range n.Vars {
		qnames = append(qnames, inner.vars[v.Name].T.S)
	}
	if pat := x.opaquePattern(bs, qnames); pat != "" {
		res := T(SBool, "(%s (%s) (! %s :pattern (%s)))", q, strings.Join(binders, " "), bs, pat)
		if len(offered) > 0 {
			plain := res
			res = Or(append(offered, res)...)
			x.offeredForms = append(x.offeredForms, [2]string{res.S, plain.S})
		}
		return &CV{T: res, Ty: types.Typ[types.Bool]}, nil
	}
	for i, v := range n.Vars {
		name := inner.vars[v.Name].T.S
		if inner.vars[v.Name].T.Sort != SBV64 {
			continue
		}
		if off, ok := soleIndexOffset(bs, name); ok {
			abs := strings.Replace(name, "!q", "!abs", 1)
			bs = strings.ReplaceAll(bs, "(bvadd "+off+" "+name+")", abs)
			bs = replaceToken(bs, name, "(bvsub "+abs+" "+off+")")
			binders[i] = fmt.Sprintf("(%s %s)", abs, SBV64)
		}
	}
	res := T(SBool, "(%s (%s) %s)", q, strings.Join(binders, " "), bs)
	if len(offered) > 0 {
		plain := res
		res = Or(append(offered, res)...)
		x.offeredForms = append(x.offeredForms, [2]string{res.S, plain.S})
	}
	return &CV{T: res, Ty: types.Typ[types.Bool]}, nil
}

func (x *Exec) evalIndex(env *CEnv, n *CIndex) (*CV, error) {
	b, err := x.eval(env, n.X)
	if err != nil {
		return nil, err
	}
	i, err := x.eval(env, n.I)
	if err != nil {
		return nil, err
	}
	bt := x.cvTerm(b, nil)
	// ghost arrays (no Go type)
	if b.Ty == nil && strings.HasPrefix(string(bt.Sort), "(Array ") {
		it := x.cvTerm(i, &CV{T: Term{"", arrayIdxSort(bt.Sort)}})
		if i.Const != nil {
			is := arrayIdxSort(bt.Sort)
			if is == SInt {
				it = IntConst(i.Const.Int64())
			} else {
				it = bigBV(i.Const, is.BVWidth())
			}
		}
		return &CV{T: Select(bt, it)}, nil
	}
	if b.Ty == nil {
		return nil, fmt.Errorf("indexing a value without a type")
	}
	it := x.cvTerm(i, &CV{T: bv64(0)})
	if w := it.Sort.BVWidth(); w != 64 && w > 0 {
		if i.Ty != nil && isSigned(i.Ty) {
			it = T(SBV64, "((_ sign_extend %d) %s)", 64-w, it.S)
		} else {
			it = T(SBV64, "((_ zero_extend %d) %s)", 64-w, it.S)
		}
	}
	switch u := b.Ty.Underlying().(type) {
	case *types.Slice:
		es := x.sortOf(u.Elem())
		if env.specHeaps != nil {
			env.specHeaps[x.heapName(u.Elem())] = true
		}
		_ = es
		abs := App(SBV64, "bvadd", sOff(bt), it)
		return &CV{T: x.heapRead(env.st, u.Elem(), sBase(bt), abs), Ty: u.Elem(),
			Addr: &Loc{Kind: LElem, Base: sBase(bt), Idx: abs, T: u.Elem()}}, nil
	case *types.Basic:
		if isString(b.Ty) {
			return &CV{T: App(SBV8, "gs.at", bt, it), Ty: types.Typ[types.Uint8]}, nil
		}
	case *types.Array:
		return &CV{T: Select(bt, it), Ty: u.Elem()}, nil
	case *types.Map:
		dom, val := x.mapHeaps(env.st, u)
		kt := x.cvTerm(i, &CV{T: Term{"", x.sortOf(u.Key())}, Ty: u.Key()})
		_ = dom
		if env.specHeaps != nil {
			env.specHeaps[x.mapValName(u)] = true
		}
		return &CV{T: Select(Select(val, bt), kt), Ty: u.Elem()}, nil
	case *types.Pointer:
		if arr, ok := u.Elem().Underlying().(*types.Array); ok {
			loc := x.locOfCV(b, u.Elem())
			return &CV{T: Select(x.load(env.st, loc), it), Ty: arr.Elem()}, nil
		}
	}
	return nil, fmt.Errorf("cannot index %v", b.Ty)
}

func (x *Exec) evalSlice(env *CEnv, n *CSlice) (*CV, error) {
	b, err := x.eval(env, n.X)
	if err != nil {
		return nil, err
	}
	bt := x.cvTerm(b, nil)
	lo, hi := bv64(0), Term{}
	if n.Lo != nil {
		v, err := x.eval(env, n.Lo)
		if err != nil {
			return nil, err
		}
		lo = x.cvTerm(v, &CV{T: bv64(0)})
	}
	if n.Hi != nil {
		v, err := x.eval(env, n.Hi)
		if err != nil {
			return nil, err
		}
		hi = x.cvTerm(v, &CV{T: bv64(0)})
	}
	switch bt.Sort {
	case SSlice:
		if hi.S == "" {
			hi = sLen(bt)
		}
		return &CV{T: mkSlice(sBase(bt), App(SBV64, "bvadd", sOff(bt), lo), App(SBV64, "bvsub", hi, lo), App(SBV64, "bvsub", sCap(bt), lo)), Ty: b.Ty}, nil
	case SStr:
		if hi.S == "" {
			hi = App(SBV64, "gs.len", bt)
		}
		x.useGsSub()
		return &CV{T: App(SStr, "gs.sub", bt, lo, hi), Ty: b.Ty}, nil
	}
	return nil, fmt.Errorf("cannot slice sort %s", bt.Sort)
}

func (x *Exec) evalSel(env *CEnv, n *CSel) (*CV, error) {
	b, err := x.eval(env, n.X)
	if err != nil {
		return nil, err
	}
	if b.Ty == nil {
		return nil, fmt.Errorf("selector .%s on untyped value", n.Name)
	}
	t := b.Ty
	var cur Term
	if pt, ok := t.Underlying().(*types.Pointer); ok {
		loc := x.locOfCV(b, pt.Elem())
		cur = x.load(env.st, loc)
		if env.specHeaps != nil {
			env.specHeaps[x.heapName(pt.Elem())] = true
		}
		t = pt.Elem()
	} else {
		cur = x.cvTerm(b, nil)
	}
	// field path (handles embedded/promoted fields)
	obj, path, _ := types.LookupFieldOrMethod(t, true, env.pkg, n.Name)
	if obj == nil {
		// unexported field of another package: search manually
		path = findField(t, n.Name)
		if path == nil {
			return nil, fmt.Errorf("no field %s in %v", n.Name, t)
		}
	} else if _, ok := obj.(*types.Var); !ok {
		return nil, fmt.Errorf("%s is not a field of %v", n.Name, t)
	}
	for _, idx := range path {
		st, ok := t.Underlying().(*types.Struct)
		if !ok {
			if pt, ok := t.Underlying().(*types.Pointer); ok {
				loc := x.locOfPtr(cur, pt.Elem())
				cur = x.load(env.st, loc)
				if env.specHeaps != nil {
					env.specHeaps[x.heapName(pt.Elem())] = true
				}
				t = pt.Elem()
				st = t.Underlying().(*types.Struct)
			} else {
				return nil, fmt.Errorf("selector path through non-struct %v", t)
			}
		}
		cur = x.fieldGet(cur, t, idx)
		t = st.Field(idx).Type()
	}
	return &CV{T: cur, Ty: t}, nil
}

func findField(t types.Type, name string) []int {
	st, ok := t.Underlying().(*types.Struct)
	if !ok {
		return nil
	}
	for i := 0; i < st.NumFields(); i++ {
		if st.Field(i).Name() == name {
			return []int{i}
		}
	}
	for i := 0; i < st.NumFields(); i++ {
		if st.Field(i).Embedded() {
			if p := findField(st.Field(i).Type(), name); p != nil {
				return append([]int{i}, p...)
			}
		}
	}
	return nil
}

func (x *Exec) evalCall(env *CEnv, n *CCall) (*CV, error) {
	switch n.Fun {
	case "old":
		if len(n.Args) != 1 {
			return nil, fmt.Errorf("old takes one argument")
		}
		e2 := *env
		e2.st = env.old
		if env.oldVars != nil {
			e2.vars = map[string]*CV{}
			for k, v := range env.vars {
				e2.vars[k] = v
			}
			for k, v := range env.oldVars {
				e2.vars[k] = v
			}
		}
		return x.eval(&e2, n.Args[0])
	case "pre": // value at loop entry
		e2 := *env
		if env.loopEntry != nil {
			e2.st = env.loopEntry
		} else {
			e2.st = env.old
		}
		return x.eval(&e2, n.Args[0])
	case "len", "cap":
		v, err := x.eval(env, n.Args[0])
		if err != nil {
			return nil, err
		}
		t := x.cvTerm(v, nil)
		switch t.Sort {
		case SSlice:
			if n.Fun == "len" {
				return &CV{T: sLen(t), Ty: types.Typ[types.Int]}, nil
			}
			return &CV{T: sCap(t), Ty: types.Typ[types.Int]}, nil
		case SStr:
			return &CV{T: App(SBV64, "gs.len", t), Ty: types.Typ[types.Int]}, nil
		}
		if v.Ty != nil {
			if arr, ok := v.Ty.Underlying().(*types.Array); ok {
				return &CV{Const: big.NewInt(arr.Len())}, nil
			}
			if mt, ok := v.Ty.Underlying().(*types.Map); ok {
				return &CV{T: x.mapLen(env.st, mt, t), Ty: types.Typ[types.Int]}, nil
			}
		}
		return nil, fmt.Errorf("len of sort %s", t.Sort)
	case "min", "max":
		a, err := x.eval(env, n.Args[0])
		if err != nil {
			return nil, err
		}
		b, err := x.eval(env, n.Args[1])
		if err != nil {
			return nil, err
		}
		at, bt := x.cvTerm(a, b), x.cvTerm(b, a)
		ty := a.Ty
		if ty == nil || a.Const != nil {
			ty = b.Ty
		}
		lt := x.binop(nil, token.LSS, at, bt, ty, ty, token.NoPos)
		if n.Fun == "min" {
			return &CV{T: Ite(lt, at, bt), Ty: ty}, nil
		}
		return &CV{T: Ite(lt, bt, at), Ty: ty}, nil
	case "beq": // bytes.Equal as a spec
		a, err := x.eval(env, n.Args[0])
		if err != nil {
			return nil, err
		}
		b, err := x.eval(env, n.Args[1])
		if err != nil {
			return nil, err
		}
		if env.specHeaps != nil {
			env.specHeaps[x.heapName(SBV8)] = true
		}
		return &CV{T: x.bytesEq(env.st, x.cvTerm(a, nil), x.cvTerm(b, nil)), Ty: types.Typ[types.Bool]}, nil
	case "iserr": // errors.Is(err, target)
		a, err := x.eval(env, n.Args[0])
		if err != nil {
			return nil, err
		}
		b, err := x.eval(env, n.Args[1])
		if err != nil {
			return nil, err
		}
		at, bt := x.cvTerm(a, nil), x.cvTerm(b, nil)
		return &CV{T: Or(Eq(at, bt), App(SBool, "wraps", at, bt)), Ty: types.Typ[types.Bool]}, nil
	case "called":
		id, ok := n.Args[0].(*CIdent)
		if !ok {
			return nil, fmt.Errorf("called(f) needs an identifier")
		}
		g, ok := env.st.ghost["called_"+id.Name]
		if !ok {
			g = IntConst(0)
		}
		return &CV{T: g}, nil
	case "mathint": // integer value of a bit-vector (unsigned) for ghost arithmetic
		v, err := x.eval(env, n.Args[0])
		if err != nil {
			return nil, err
		}
		return &CV{T: App(SInt, "bv2nat", x.cvTerm(v, nil))}, nil
	case "alloc":
		v, err := x.eval(env, n.Args[0])
		if err != nil {
			return nil, err
		}
		t := x.cvTerm(v, nil)
		if t.Sort == SSlice {
			t = sBase(t)
		}
		if t.Sort == SPtr {
			t = App(SInt, "pbase", t)
		}
		return &CV{T: Select(env.st.alloc, t), Ty: types.Typ[types.Bool]}, nil
	case "hp": // raw heap cell of the element type of a slice expression: hp(s, addr, absIndex)
		v, err := x.eval(env, n.Args[0])
		if err != nil {
			return nil, err
		}
		sl, ok := v.Ty.Underlying().(*types.Slice)
		if !ok {
			return nil, fmt.Errorf("hp: first argument must be a slice")
		}
		a, err := x.eval(env, n.Args[1])
		if err != nil {
			return nil, err
		}
		i, err := x.eval(env, n.Args[2])
		if err != nil {
			return nil, err
		}
		if env.specHeaps != nil {
			env.specHeaps[x.heapName(sl.Elem())] = true
		}
		return &CV{T: x.heapRead(env.st, sl.Elem(), x.cvTerm(a, &CV{T: Term{"", SInt}}), x.cvTerm(i, &CV{T: bv64(0)})), Ty: sl.Elem()}, nil
	case "base":
		v, err := x.eval(env, n.Args[0])
		if err != nil {
			return nil, err
		}
		return &CV{T: sBase(x.cvTerm(v, nil))}, nil
	case "off":
		v, err := x.eval(env, n.Args[0])
		if err != nil {
			return nil, err
		}
		return &CV{T: sOff(x.cvTerm(v, nil)), Ty: types.Typ[types.Int]}, nil
	}
	if n.Fun == "string" && len(n.Args) == 1 {
		v, err := x.eval(env, n.Args[0])
		if err != nil {
			return nil, err
		}
		t := x.cvTerm(v, nil)
		if t.Sort == SStr {
			return &CV{T: t, Ty: types.Typ[types.String]}, nil
		}
		if t.Sort != SSlice {
			return nil, fmt.Errorf("string() of sort %s", t.Sort)
		}
		x.useGsOf()
		if env.specHeaps != nil {
			env.specHeaps[x.heapName(SBV8)] = true
		}
		h := x.heap(env.st, SBV8)
		return &CV{T: T(SStr, "(gs.of %s %s %s)", Select(h, sBase(t)).S, sOff(t).S, sLen(t).S), Ty: types.Typ[types.String]}, nil
	}
	// model-specific builtins (ghost database etc.)
	if f, ok := contractBuiltins[n.Fun]; ok {
		return f(x, env, n)
	}
	// conversions
	if t := basicTypeByName(n.Fun); t != nil && len(n.Args) == 1 {
		v, err := x.eval(env, n.Args[0])
		if err != nil {
			return nil, err
		}
		if v.Const != nil {
			return &CV{T: bigBV(v.Const, intWidth(t.Underlying().(*types.Basic))), Ty: t}, nil
		}
		from := v.Ty
		if from == nil {
			from = typeOfSort(v.T.Sort)
		}
		r := x.convert(env.st, &Val{T: x.cvTerm(v, nil), Ty: from}, from, t)
		return &CV{T: r.T, Ty: t}, nil
	}
	// named types of the package used as conversions: eth.Uint64(x) not supported; plain T(x)
	if env.pkg != nil {
		if obj, ok := env.pkg.Scope().Lookup(n.Fun).(*types.TypeName); ok && len(n.Args) == 1 {
			v, err := x.eval(env, n.Args[0])
			if err != nil {
				return nil, err
			}
			from := v.Ty
			if from == nil {
				from = typeOfSort(v.T.Sort)
			}
			if v.Const != nil {
				return &CV{T: bigBV(v.Const, x.sortOf(obj.Type()).BVWidth()), Ty: obj.Type()}, nil
			}
			if isInteger(obj.Type()) {
				r := x.convert(env.st, &Val{T: x.cvTerm(v, nil), Ty: from}, from, obj.Type())
				return &CV{T: r.T, Ty: obj.Type()}, nil
			}
			return &CV{T: x.cvTerm(v, nil), Ty: obj.Type()}, nil
		}
	}
	// spec functions
	if sp := x.w.findSpec(env.pkg, n.Fun); sp != nil {
		return x.callSpec(env, sp, n)
	}
	return nil, fmt.Errorf("unknown function %q in contract", n.Fun)
}

func basicTypeByName(s string) types.Type {
	switch s {
	case "int":
		return types.Typ[types.Int]
	case "int8":
		return types.Typ[types.Int8]
	case "int16":
		return types.Typ[types.Int16]
	case "int32", "rune":
		return types.Typ[types.Int32]
	case "int64":
		return types.Typ[types.Int64]
	case "uint":
		return types.Typ[types.Uint]
	case "uint8", "byte":
		return types.Typ[types.Uint8]
	case "uint16":
		return types.Typ[types.Uint16]
	case "uint32":
		return types.Typ[types.Uint32]
	case "uint64":
		return types.Typ[types.Uint64]
	case "uintptr":
		return types.Typ[types.Uintptr]
	}
	return nil
}

// bytesEq: extensional equality of two byte slices (bytes.Equal).
func (x *Exec) bytesEq(st *State, a, b Term) Term {
	x.sc.Decl("bytes.eq", `(declare-fun bytes.eq ((Array Int (Array (_ BitVec 64) (_ BitVec 8))) Slice Slice) Bool)
(assert (forall ((h (Array Int (Array (_ BitVec 64) (_ BitVec 8)))) (a Slice) (b Slice)) (! (= (bytes.eq h a b)
  (and (= (slen a) (slen b))
       (forall ((i (_ BitVec 64))) (=> (bvult i (slen a)) (= (select (select h (sbase a)) (bvadd (soff a) i)) (select (select h (sbase b)) (bvadd (soff b) i)))))))
  :pattern ((bytes.eq h a b)))))`)
	return App(SBool, "bytes.eq", x.heap(st, SBV8), a, b)
}

// ---------------------------------------------------------------------------
// spec functions: compiled to define-fun-rec with explicit heap parameters

type compiledSpec struct {
	name   string
	heaps  []string // heap names passed as extra parameters
	params []types.Type
	ret    types.Type
	retS   Sort
}

func (x *Exec) callSpec(env *CEnv, sp *SpecFunc, n *CCall) (*CV, error) {
	cs, err := x.compileSpec(env, sp)
	if err != nil {
		return nil, err
	}
	if len(n.Args) != len(sp.Params) {
		return nil, fmt.Errorf("spec %s: want %d args", sp.Name, len(sp.Params))
	}
	if env.role != 0 && !sp.Rec && !sp.Opaque && sp.Body != nil && !env.inSpec && env.specHeaps == nil {
		// expansion in place (same meaning as the compiled function applied to the current heaps)
		inst := *env
		inst.vars = map[string]*CV{}
		inst.pkg = x.w.typesPkg(sp.Pkg)
		aenv := env.withRole(0)
		ok := true
		for i, a := range n.Args {
			v, err := x.eval(aenv, a)
			if err != nil {
				return nil, err
			}
			like := &CV{Ty: cs.params[i], T: Term{"", SInt}}
			if cs.params[i] != nil {
				like.T = Term{"", x.sortOf(cs.params[i])}
			}
			t := x.cvTerm(v, like)
			if cs.params[i] != nil && t.Sort != x.sortOf(cs.params[i]) {
				ok = false
				break
			}
			inst.vars[sp.Params[i].Name] = &CV{T: t, Ty: cs.params[i]}
		}
		if ok {
			bv, err := x.eval(&inst, sp.Body)
			if err == nil && bv.T.Sort == cs.retS {
				return &CV{T: bv.T, Ty: cs.ret}, nil
			}
		}
	}
	var args []Term
	for i, a := range n.Args {
		v, err := x.eval(env, a)
		if err != nil {
			return nil, err
		}
		like := &CV{Ty: cs.params[i]}
		if cs.params[i] != nil {
			like.T = Term{"", x.sortOf(cs.params[i])}
		} else {
			like.T = Term{"", SInt}
		}
		t := x.cvTerm(v, like)
		if cs.params[i] != nil && t.Sort != x.sortOf(cs.params[i]) {
			return nil, fmt.Errorf("spec %s: argument %d has sort %s, want %s", sp.Name, i, t.Sort, x.sortOf(cs.params[i]))
		}
		args = append(args, t)
	}
	for _, h := range cs.heaps {
		if env.specHeaps != nil {
			env.specHeaps[h] = true
		}
		if cur, ok := env.st.heaps[h]; ok {
			args = append(args, cur)
		} else {
			args = append(args, Term{h + "_init", x.heapSorts[h]})
		}
	}
	app := App(cs.retS, cs.name, args...)
	if sp.Rec && !env.noUnfold && !env.inSpec && !strings.Contains(app.S, "!q") && !strings.Contains(app.S, "!abs") && !x.unfolded[app.S] {
		// one-level unfolding of the definition for this instance
		x.unfolded[app.S] = true
		inst := &CEnv{x: x, st: env.st, old: env.st, vars: map[string]*CV{}, pkg: x.w.typesPkg(sp.Pkg), noUnfold: true}
		for i, p := range sp.Params {
			inst.vars[p.Name] = &CV{T: args[i], Ty: cs.params[i]}
		}
		bv, err := x.eval(inst, sp.Body)
		if err != nil {
			return nil, fmt.Errorf("unfolding %s: %v", sp.Name, err)
		}
		x.sc.Assume(Eq(app, x.cvTerm(bv, &CV{T: Term{"", cs.retS}})))
	}
	return &CV{T: app, Ty: cs.ret}, nil
}

func (x *Exec) compileSpec(env *CEnv, sp *SpecFunc) (*compiledSpec, error) {
	key := sp.Pkg + "." + sp.Name
	if cs, ok := x.specs[key]; ok {
		if cs == nil {
			return nil, fmt.Errorf("spec %s: recursive use before heap set is known", sp.Name)
		}
		return cs, nil
	}
	pkg := x.w.typesPkg(sp.Pkg)
	penv := &CEnv{x: x, vars: map[string]*CV{}, pkg: pkg}
	cs := &compiledSpec{name: "spec_" + mangleIdent(strings.TrimPrefix(sp.Pkg, "github.com/indexsupply/shovel/")) + "_" + sp.Name}
	var binders []string
	for _, p := range sp.Params {
		var ty types.Type
		srt := SInt
		if ps, ok := pseudoSorts[p.Type]; ok {
			srt = ps
		} else {
			t, err := x.resolveType(penv, p.Type)
			if err != nil {
				return nil, err
			}
			ty = t
			srt = x.sortOf(t)
		}
		cs.params = append(cs.params, ty)
		pn := "p_" + p.Name
		binders = append(binders, fmt.Sprintf("(%s %s)", pn, srt))
		penv.vars[p.Name] = &CV{T: Term{pn, srt}, Ty: ty}
	}
	if ps, ok := pseudoSorts[sp.Ret]; ok {
		cs.retS = ps
	} else {
		t, err := x.resolveType(penv, sp.Ret)
		if err != nil {
			return nil, err
		}
		cs.ret = t
		cs.retS = x.sortOf(t)
	}
	// heap discovery: iterate to a fixed point over the heaps read by the body
	// (recursive calls contribute the heaps found so far)
	heaps := map[string]bool{}
	var body Term
	for iter := 0; iter < 4; iter++ {
		cs.heaps = sortedKeys(heaps)
		x.specs[key] = cs
		st := &State{reach: TTrue, heaps: map[string]Term{}, cells: map[cellKey]Term{}, ghost: map[string]Term{}, alloc: Term{"alloc_spec", ArraySort(SInt, SBool)}}
		penv.inSpec = true
		for h := range x.heapSorts {
			st.heaps[h] = Term{"h_" + h, x.heapSorts[h]}
		}
		penv.st, penv.old = st, st
		penv.specHeaps = map[string]bool{}
		// heaps not yet known are created on demand by heap(); make them parameters too
		before := len(x.heapSorts)
		cv, err := x.eval(penv, sp.Body)
		if err != nil {
			delete(x.specs, key)
			return nil, fmt.Errorf("spec %s: %v", sp.Name, err)
		}
		body = x.cvTerm(cv, &CV{T: Term{"", cs.retS}})
		if len(x.heapSorts) != before {
			// a heap was first seen inside the body: redo with it as a parameter
			for h := range penv.specHeaps {
				heaps[h] = true
			}
			continue
		}
		changed := false
		for h := range penv.specHeaps {
			if !heaps[h] {
				heaps[h] = true
				changed = true
			}
		}
		if !changed {
			break
		}
	}
	cs.heaps = sortedKeys(heaps)
	x.specs[key] = cs
	all := append([]string{}, binders...)
	for _, h := range cs.heaps {
		all = append(all, fmt.Sprintf("(h_%s %s)", h, x.heapSorts[h]))
	}
	if body.Sort != cs.retS {
		return nil, fmt.Errorf("spec %s: body has sort %s, declared %s", sp.Name, body.Sort, cs.retS)
	}
	// replace reads of "<heap>_init" that slipped in (heaps first seen in the body) by parameters
	bs := body.S
	for _, h := range cs.heaps {
		bs = strings.ReplaceAll(bs, h+"_init", "h_"+h)
	}
	if sp.Rec {
		var sorts []string
		for _, b := range all {
			f := strings.SplitN(strings.TrimSuffix(strings.TrimPrefix(b, "("), ")"), " ", 2)
			sorts = append(sorts, f[1])
		}
		x.opaqueSpecs[cs.name] = true
		x.sc.Decl("spec:"+key, fmt.Sprintf("(declare-fun %s (%s) %s)", cs.name, strings.Join(sorts, " "), cs.retS))
		return cs, nil
	}
	if sp.Opaque {
		// uninterpreted symbol + definitional axiom triggered on its applications
		var sorts, names []string
		for _, b := range all {
			f := strings.SplitN(strings.TrimSuffix(strings.TrimPrefix(b, "("), ")"), " ", 2)
			names = append(names, f[0])
			sorts = append(sorts, f[1])
		}
		app := "(" + cs.name + " " + strings.Join(names, " ") + ")"
		x.opaqueSpecs[cs.name] = true
		x.sc.Decl("spec:"+key, fmt.Sprintf("(declare-fun %s (%s) %s)\n(assert (forall (%s) (! (= %s %s) :pattern (%s))))",
			cs.name, strings.Join(sorts, " "), cs.retS, strings.Join(all, " "), app, bs, app))
		return cs, nil
	}
	kw := "define-fun"
	if strings.Contains(bs, "("+cs.name+" ") {
		kw = "define-fun-rec"
	}
	x.sc.Decl("spec:"+key, fmt.Sprintf("(%s %s (%s) %s\n  %s)", kw, cs.name, strings.Join(all, " "), cs.retS, bs))
	return cs, nil
}

// soleIndexOffset finds the unique OFF such that every occurrence of
// "(bvadd OFF name)" uses the same OFF, and at least one exists.
func soleIndexOffset(body, name string) (string, bool) {
	needle := " " + name + ")"
	off := ""
	found := false
	for i := 0; ; {
		j := strings.Index(body[i:], needle)
		if j < 0 {
			break
		}
		end := i + j // position of the space before name
		i = end + len(needle)
		// walk back to the matching "(bvadd "
		depth, k := 0, end-1
		for ; k >= 0; k-- {
			if body[k] == ')' {
				depth++
			} else if body[k] == '(' {
				if depth == 0 {
					break
				}
				depth--
			}
		}
		if k < 0 || !strings.HasPrefix(body[k:], "(bvadd ") {
			continue
		}
		o := body[k+len("(bvadd ") : end]
		// o must be a single s-expression
		if sortEnd(o, 0) != len(o) {
			continue
		}
		if strings.Contains(o, name) {
			continue
		}
		if !strings.HasPrefix(o, "(soff ") {
			continue // only slice-element addressing is rewritten
		}
		if found && o != off {
			// several slices indexed by the same variable (new[k] == old[k]): the
			// first one becomes the plain trigger, the others keep an index that
			// is arithmetic in the absolute variable
			continue
		}
		off, found = o, true
	}
	return off, found
}

// opaquePattern returns an application "(spec_f a1 .. an)" of an opaque spec
// function occurring in body in which every bound variable is a direct argument.
func (x *Exec) opaquePattern(body string, vars []string) string {
	for name := range x.opaqueSpecs {
		needle := "(" + name + " "
		for i := 0; ; {
			j := strings.Index(body[i:], needle)
			if j < 0 {
				break
			}
			start := i + j
			end := sortEnd(body, start)
			app := body[start:end]
			i = start + len(needle)
			args := splitArgs(app[len(needle) : len(app)-1])
			ok := true
			for _, v := range vars {
				found := false
				for _, a := range args {
					if a == v {
						found = true
					}
				}
				if !found {
					ok = false
				}
			}
			if ok {
				return app
			}
		}
	}
	return ""
}

func splitArgs(s string) []string {
	var out []string
	for i := 0; i < len(s); {
		for i < len(s) && s[i] == ' ' {
			i++
		}
		if i >= len(s) {
			break
		}
		e := sortEnd(s, i)
		out = append(out, s[i:e])
		i = e
	}
	return out
}

// conjuncts splits a contract expression at top-level && so that each part
// becomes its own obligation (smaller queries, precise failure reports).
func conjuncts(e CExpr) []CExpr {
	if b, ok := e.(*CBin); ok && b.Op == "&&" {
		return append(conjuncts(b.X), conjuncts(b.Y)...)
	}
	return []CExpr{e}
}

func partName(name string, i, n int) string {
	if n == 1 {
		return name
	}
	return fmt.Sprintf("%s.%c", name, 'a'+i)
}

// sorts that have no Go type: mathematical integers and the ghost database arrays
var pseudoSorts = map[string]Sort{"mathint": SInt, "curset": sCur, "rowmap": sRows, "hashmap": sHash, "hashv": "HashV"}

func hasCell(st *State, l *Loc) bool {
	_, ok := st.cells[l.Cell]
	return ok
}
