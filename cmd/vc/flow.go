package main

// E2: ordering / ownership clauses discharged by dataflow over go/ssa
// (reported with back end "flow", never as SMT proofs).

import (
	"fmt"
	"go/types"
	"strings"

	"golang.org/x/tools/go/ssa"
)

type flowEvent struct {
	kind string // call go defer-run
	name string // callee
	recv string // receiver / first argument description (field path)
	ins  ssa.Instruction
}

func calleeName(cc *ssa.CallCommon) string {
	if cc.IsInvoke() {
		return "invoke." + cc.Method.Name()
	}
	switch f := cc.Value.(type) {
	case *ssa.Function:
		return f.String()
	case *ssa.MakeClosure:
		return f.Fn.(*ssa.Function).String()
	case *ssa.Builtin:
		return "builtin." + f.Name()
	}
	return "dynamic"
}

func recvDesc(cc *ssa.CallCommon) string {
	if len(cc.Args) == 0 {
		return ""
	}
	return addrDesc(cc.Args[0])
}

func addrDesc(v ssa.Value) string {
	switch a := v.(type) {
	case *ssa.FieldAddr:
		return addrDesc(a.X) + "." + fieldName(a)
	case *ssa.Parameter:
		return a.Name()
	case *ssa.Alloc:
		return a.Comment
	case *ssa.UnOp:
		return addrDesc(a.X)
	case *ssa.FreeVar:
		return a.Name()
	}
	return "?"
}

func fieldName(a *ssa.FieldAddr) string { return structFieldName(a) }

// exitSequences enumerates, for every acyclic path to a return, the calls in
// order followed by the deferred calls in reverse registration order.
func exitSequences(fn *ssa.Function) [][]flowEvent {
	var out [][]flowEvent
	var walk func(b *ssa.BasicBlock, seq []flowEvent, defers []flowEvent, seen map[*ssa.BasicBlock]bool)
	walk = func(b *ssa.BasicBlock, seq []flowEvent, defers []flowEvent, seen map[*ssa.BasicBlock]bool) {
		if seen[b] || len(out) > 4096 {
			return
		}
		seen2 := map[*ssa.BasicBlock]bool{b: true}
		for k := range seen {
			seen2[k] = true
		}
		seq = append([]flowEvent(nil), seq...)
		defers = append([]flowEvent(nil), defers...)
		for _, ins := range b.Instrs {
			switch i := ins.(type) {
			case *ssa.Call:
				seq = append(seq, flowEvent{"call", calleeName(i.Common()), recvDesc(i.Common()), ins})
			case *ssa.Go:
				seq = append(seq, flowEvent{"go", calleeName(i.Common()), recvDesc(i.Common()), ins})
			case *ssa.Defer:
				defers = append(defers, flowEvent{"defer-run", calleeName(i.Common()), recvDesc(i.Common()), ins})
			case *ssa.RunDefers:
				for k := len(defers) - 1; k >= 0; k-- {
					seq = append(seq, defers[k])
				}
			case *ssa.Return:
				out = append(out, seq)
				return
			case *ssa.Panic:
				return
			}
		}
		for _, s := range b.Succs {
			walk(s, seq, defers, seen2)
		}
	}
	if len(fn.Blocks) > 0 {
		walk(fn.Blocks[0], nil, nil, map[*ssa.BasicBlock]bool{})
	}
	return out
}

func (w *World) findFunc(pkgPath, rel string) *ssa.Function {
	sp := w.spkgs[pkgPath]
	if sp == nil {
		return nil
	}
	return allFuncs(sp)[rel]
}

func flowObl(prop, name, desc string, ok bool, detail string) *Obligation {
	o := &Obligation{Name: name, Kind: "flow", Func: name, Props: []string{prop}, Desc: desc, Backend: "flow", Status: "discharged"}
	if !ok {
		o.Status = "failed"
		o.Result = SolverResult{Verdict: "flow-violation", Solver: "flow", Output: detail}
	}
	return o
}

// C20: Manager.Run holds the running lock from entry to return, every runner
// is counted in the WaitGroup, and the wait for all runners happens before
// the lock is released.
func flowManagerRun(w *World) []*Obligation {
	fn := w.findFunc(repoMod+"/shovel", "(*Manager).Run")
	if fn == nil {
		return []*Obligation{flowObl("C20", "shovel.(*Manager).Run:flow:exists", "function present", false, "not found")}
	}
	var obls []*Obligation
	seqs := exitSequences(fn)
	firstLock, waitBeforeUnlock, unlockLast := true, true, true
	detail := ""
	for _, seq := range seqs {
		// first lock-relevant event is Lock(tm.running)
		sawLock := false
		for _, e := range seq {
			if strings.HasSuffix(e.name, "sync.Mutex).Lock") && strings.Contains(e.recv, "running") {
				sawLock = true
				break
			}
			if e.kind == "go" || strings.Contains(e.name, "loadTasks") {
				break
			}
		}
		if !sawLock {
			firstLock = false
			detail += "a path reaches loadTasks or a go statement before Lock(tm.running)\n"
		}
		hasGo, waitIdx, unlockIdx := false, -1, -1
		for i, e := range seq {
			if e.kind == "go" {
				hasGo = true
			}
			if strings.HasSuffix(e.name, "sync.WaitGroup).Wait") {
				waitIdx = i
			}
			if strings.HasSuffix(e.name, "sync.Mutex).Unlock") && strings.Contains(e.recv, "running") {
				unlockIdx = i
			}
		}
		if unlockIdx != len(seq)-1 {
			unlockLast = false
			detail += "Unlock(tm.running) is not the last effect on a return path\n"
		}
		if hasGo && (waitIdx < 0 || waitIdx > unlockIdx) {
			waitBeforeUnlock = false
			detail += fmt.Sprintf("a path starts runners but waits for them after releasing the lock (wait at %d, unlock at %d of %d effects)\n", waitIdx, unlockIdx, len(seq))
		}
	}
	obls = append(obls, flowObl("C20", "shovel.(*Manager).Run:flow:lock-first", "Lock(tm.running) precedes loading and starting tasks on every path", firstLock && len(seqs) > 0, detail))
	obls = append(obls, flowObl("C20", "shovel.(*Manager).Run:flow:unlock-last", "Unlock(tm.running) is the last effect on every return path", unlockLast && len(seqs) > 0, detail))
	obls = append(obls, flowObl("C20", "shovel.(*Manager).Run:flow:wait-before-unlock", "on every path that starts runners, WaitGroup.Wait happens before Unlock(tm.running): a generation has stopped before the lock is released", waitBeforeUnlock && len(seqs) > 0, detail))
	// every go statement is counted: wg.Add(1) immediately before, closure ends with wg.Done
	counted := true
	for _, b := range fn.Blocks {
		for k, ins := range b.Instrs {
			g, ok := ins.(*ssa.Go)
			if !ok {
				continue
			}
			prevAdd := false
			for j := k - 1; j >= 0; j-- {
				if c, ok := b.Instrs[j].(*ssa.Call); ok {
					prevAdd = strings.HasSuffix(calleeName(c.Common()), "sync.WaitGroup).Add")
					break
				}
			}
			done := false
			if mc, ok := g.Call.Value.(*ssa.MakeClosure); ok {
				cf := mc.Fn.(*ssa.Function)
				for _, cb := range cf.Blocks {
					for _, ci := range cb.Instrs {
						if c, ok := ci.(*ssa.Call); ok && strings.HasSuffix(calleeName(c.Common()), "sync.WaitGroup).Done") {
							done = true
						}
						if d, ok := ci.(*ssa.Defer); ok && strings.HasSuffix(calleeName(d.Common()), "sync.WaitGroup).Done") {
							done = true
						}
					}
				}
			}
			if !prevAdd || !done {
				counted = false
				detail += "a go statement is not bracketed by wg.Add(1) / wg.Done()\n"
			}
		}
	}
	obls = append(obls, flowObl("C20", "shovel.(*Manager).Run:flow:runners-counted", "every go statement is preceded by wg.Add(1) and its closure calls wg.Done", counted, detail))
	return obls
}

func init() {
	flowChecks["C20"] = append(flowChecks["C20"], flowManagerRun)
}

func structFieldName(a *ssa.FieldAddr) string {
	if pt, ok := a.X.Type().Underlying().(*types.Pointer); ok {
		if st, ok := pt.Elem().Underlying().(*types.Struct); ok && a.Field < st.NumFields() {
			return st.Field(a.Field).Name()
		}
	}
	return fmt.Sprintf("f%d", a.Field)
}

// C15: a dashboard submission that fails the identifier check is rejected
// before any SQL is issued: on every path from the failure branch of the
// CheckUserInput test to the function's exit there is no database call and no
// restart request.
func flowSaveIntegration(w *World) []*Obligation {
	name := "shovel/web.(*Handler).SaveIntegration:flow:rejected-before-any-sql"
	fn := w.findFunc(repoMod+"/shovel/web", "(*Handler).SaveIntegration")
	if fn == nil {
		return []*Obligation{flowObl("C15", name, "function present", false, "not found")}
	}
	var checkCall *ssa.Call
	for _, b := range fn.Blocks {
		for _, ins := range b.Instrs {
			if c, ok := ins.(*ssa.Call); ok && strings.HasSuffix(calleeName(c.Common()), "config.CheckUserInput") {
				checkCall = c
			}
		}
	}
	if checkCall == nil {
		return []*Obligation{flowObl("C15", name, "the submission is checked", false, "SaveIntegration does not call config.CheckUserInput")}
	}
	// the branch on err != nil
	var failBlock *ssa.BasicBlock
	for _, r := range *checkCall.Referrers() {
		bin, ok := r.(*ssa.BinOp)
		if !ok || bin.Op.String() != "!=" {
			continue
		}
		for _, r2 := range *bin.Referrers() {
			if iff, ok := r2.(*ssa.If); ok {
				failBlock = iff.Block().Succs[0]
			}
		}
	}
	if failBlock == nil {
		return []*Obligation{flowObl("C15", name, "the result of the check is tested", false, "no branch on the error returned by CheckUserInput")}
	}
	// the check must come before any database call
	detail := ""
	ok := true
	seen := map[*ssa.BasicBlock]bool{}
	var walk func(b *ssa.BasicBlock)
	walk = func(b *ssa.BasicBlock) {
		if seen[b] {
			return
		}
		seen[b] = true
		for _, ins := range b.Instrs {
			if c, isCall := ins.(ssa.CallInstruction); isCall {
				n := calleeName(c.Common())
				if strings.Contains(n, "pgxpool.Pool).") || strings.HasSuffix(n, "Manager).Restart") || strings.Contains(n, "invoke.Exec") || strings.Contains(n, "invoke.Query") {
					ok = false
					detail += "after a failed identifier check the handler still calls " + n + "\n"
				}
			}
		}
		for _, s := range b.Succs {
			walk(s)
		}
	}
	walk(failBlock)
	// and no database call may precede the check
	before := true
	for _, b := range fn.Blocks {
		if !b.Dominates(checkCall.Block()) || b == checkCall.Block() {
			continue
		}
		for _, ins := range b.Instrs {
			if c, isCall := ins.(ssa.CallInstruction); isCall && strings.Contains(calleeName(c.Common()), "pgxpool.Pool).") {
				before = false
				detail += "a database call precedes the identifier check\n"
			}
		}
	}
	return []*Obligation{
		flowObl("C15", name, "no database call and no restart on any path after a failed CheckUserInput", ok, detail),
		flowObl("C15", "shovel/web.(*Handler).SaveIntegration:flow:checked-before-sql", "no database call before the identifier check", before, detail),
	}
}

func init() {
	flowChecks["C15"] = append(flowChecks["C15"], flowSaveIntegration)
}

// C19: every request handler of web.Handler that is registered on the mux in
// cmd/shovel is wrapped in Authn, except the methods the contract file lists
// as public (`//@ public Handler Index,Diag,Prom,Login props=C19`). A handler
// method is any method of *web.Handler with the signature
// (http.ResponseWriter, *http.Request).
func flowRoutes(w *World) []*Obligation {
	public := map[string]bool{}
	declared := false
	for _, cf := range w.files {
		for _, g := range cf.Guards {
			if g.Kind == "public" && g.Type == "Handler" && hasProp(g.Props, "C19") {
				declared = true
				for _, m := range g.Fields {
					public[m] = true
				}
			}
		}
	}
	if !declared {
		return []*Obligation{flowObl("C19", "cmd/shovel.main:routes:public-list", "the contract file of package web lists the public handlers", false, "no `public Handler ...` clause")}
	}
	sp := w.spkgs[repoMod+"/cmd/shovel"]
	if sp == nil {
		return []*Obligation{flowObl("C19", "cmd/shovel.main:routes:loaded", "package cmd/shovel loaded", false, "not loaded")}
	}
	var obls []*Obligation
	nreg := 0
	for _, fn := range allFuncs(sp) {
		for _, b := range fn.Blocks {
			for _, ins := range b.Instrs {
				mc, ok := ins.(*ssa.MakeClosure)
				if !ok {
					continue
				}
				f := mc.Fn.(*ssa.Function)
				// bound method value of *web.Handler: "(*...web.Handler).M$bound"
				if !strings.HasSuffix(f.Name(), "$bound") || !strings.Contains(f.String(), "shovel/web.Handler).") {
					continue
				}
				m := strings.TrimSuffix(f.Name(), "$bound")
				sig := f.Signature
				if sig.Params().Len() != 2 || !strings.HasSuffix(sig.Params().At(0).Type().String(), "http.ResponseWriter") {
					continue // not a request handler (Authn itself, PushUpdates, ...)
				}
				nreg++
				wrapped := true
				detail := ""
				var follow func(v ssa.Value) bool
				follow = func(v ssa.Value) bool {
					refs := v.Referrers()
					if refs == nil {
						return false
					}
					okAll := len(*refs) > 0
					for _, r := range *refs {
						switch u := r.(type) {
						case *ssa.ChangeType:
							okAll = follow(u) && okAll
						case *ssa.MakeInterface:
							okAll = follow(u) && okAll
						case *ssa.DebugRef:
						case ssa.CallInstruction:
							if strings.HasSuffix(calleeName(u.Common()), "web.Handler).Authn") {
								continue
							}
							okAll = false
							detail += fmt.Sprintf("%s is passed to %s without the Authn wrapper\n", m, calleeName(u.Common()))
						default:
							okAll = false
							detail += fmt.Sprintf("%s flows into %T\n", m, r)
						}
					}
					return okAll
				}
				if !public[m] {
					wrapped = follow(mc)
					obls = append(obls, flowObl("C19", fmt.Sprintf("cmd/shovel.%s:routes:wrapped[%s]", fn.Name(), m),
						"handler "+m+" is only ever registered behind Authn", wrapped, detail))
				}
			}
		}
	}
	obls = append(obls, flowObl("C19", "cmd/shovel.main:routes:found", fmt.Sprintf("%d handler registrations of web.Handler found", nreg), nreg > 0, "no handler registration found"))
	return obls
}

func init() {
	flowChecks["C19"] = append(flowChecks["C19"], flowRoutes)
}
