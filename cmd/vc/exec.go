package main

// E1: symbolic execution of go/ssa function bodies into SMT obligations.
// Loops are cut at their heads (invariants), calls use callee contracts,
// library models, or inlining.

import (
	"fmt"
	"go/ast"
	"go/constant"
	"go/token"
	"go/types"
	"os"
	"sort"
	"strings"

	"golang.org/x/tools/go/ssa"
)

type Val struct {
	T     Term
	Tuple []*Val
	Loc   *Loc
	Clo   *Closure
	Fn    *ssa.Function
	Ty    types.Type
	Iter  *iterState
}

type Closure struct {
	Fn       *ssa.Function
	Bindings []*Val
}

type iterState struct {
	kind string // "string" | "map"
	str  Term
	pos  Term // cell holding the current byte offset (string)
	m    Term
	mt   *types.Map
	id   int
}

type Obligation struct {
	NoRetry bool // listed as a known finding: expected to stay undischarged, no long retry
	Name    string
	Kind    string // requires ensures invariant-entry invariant-preserved no-panic assert cover canary lemma flow bounded
	Func    string
	Props   []string
	Pos     int
	Goal    Term // to be proved under the script prefix (we assert its negation)
	Desc    string
	Where   string
	Cover   bool // expectation: negated goal must be SAT (reachability / canary)
	Script  *Script
	Extra   string // extra decls emitted at query time

	Result   SolverResult
	Status   string // discharged | failed | unknown | known-finding
	Backend  string
	ModelIDs []string
	Model    map[string]string
	Replay   *replaySpec
}

type Exec struct {
	coverBudget int // blocks still to be covered after the last modelled/contracted call
	blockCovers int
	atcallHits map[*Clause]int // atcall clauses: number of call sites they were checked at
	tinvDone        map[string]bool
	inHavoc         bool        // modelling a callee's or a loop's writes, not a write of the function under verification
	offeredForms    [][2]string // (formula with offered witnesses, plain formula) since the last check/assume
	topEntryAlloc   Term        // allocation map at entry of the function under verification
	curPos          token.Pos   // position of the instruction being executed
	nSkolem         int
	skolems         []skolemFn
	w               *World
	sc              *Script
	obls            []*Obligation
	structs         map[string]*structInfo
	structBySort    map[Sort]*structInfo
	strLits         map[string]Term
	strLitOrder     []string
	typeTags        map[string]int
	heapSorts       map[string]Sort
	nframes         int
	top             *ssa.Function
	topC            *FuncContract
	unsup           []string
	depth           int
	curFunc         string
	modelTerms      []string
	inlineStack     []*ssa.Function
	assumptions     map[string]bool
	ghostInit       map[string]Term
	nIter           int
	errSentinels    []string
	pendingAllHavoc bool
	oblCount        map[string]int
	curFrame        *Frame
	topFrame        *Frame
	modCache        map[*ssa.Function]*modSet
	specs           map[string]*compiledSpec
	dynModels       map[string]libModel
	opaqueSpecs     map[string]bool
	unfolded        map[string]bool
	pairSrc, pairIg Term
	rowResults      map[string]*rowResult
	nCommitSites    int
	heapTypes       map[string]types.Type
}

func NewExec(w *World) *Exec {
	x := &Exec{w: w, sc: NewScript(), structs: map[string]*structInfo{}, structBySort: map[Sort]*structInfo{},
		strLits: map[string]Term{}, typeTags: map[string]int{}, heapSorts: map[string]Sort{},
		assumptions: map[string]bool{}, ghostInit: map[string]Term{}, oblCount: map[string]int{},
		modCache: map[*ssa.Function]*modSet{}, specs: map[string]*compiledSpec{}, dynModels: map[string]libModel{}, opaqueSpecs: map[string]bool{}, unfolded: map[string]bool{}, rowResults: map[string]*rowResult{}, heapTypes: map[string]types.Type{}}
	x.sc.Decl("preamble", preamble)
	return x
}

func (x *Exec) unsupported(what string) {
	x.unsup = append(x.unsup, what)
}

func (x *Exec) assumeNote(s string) { x.assumptions[s] = true }

type Frame struct {
	id     int
	fn     *ssa.Function
	env    map[ssa.Value]*Val
	params []*Val
	fv     []*Val
	entry  *State // state at function entry (for old())
	c      *FuncContract
	inline bool
	loops  map[*ssa.BasicBlock]*loopInfo
	rets   []retPoint
	// contract environment names
	names      map[string]*Val
	pkg        *types.Package
	debugNames map[string]ssa.Value
	debugAll   map[string][]ssa.Value
	// results of the calls executed so far, by callee method/function name
	// (contract builtin callresult(name, k))
	callVals map[string][]*Val
}

type retPoint struct {
	st   *State
	vals []*Val
}

type loopInfo struct {
	head    *ssa.BasicBlock
	body    map[*ssa.BasicBlock]bool
	ordinal int
	entrySt *State // state at loop entry (before havoc)
}

func (x *Exec) obligation(st *State, kind, name string, goal Term, props []string, desc string, where string) *Obligation {
	o := &Obligation{Name: name, Kind: kind, Func: x.curFunc, Props: props, Pos: x.sc.Pos(),
		Goal: Implies(st.reach, goal), Desc: desc, Where: where, Script: x.sc}
	if x.topFrame != nil && x.top != nil && (kind == "no-panic" || kind == "in-len") {
		var ps []*Val
		for _, p := range x.top.Params {
			ps = append(ps, x.topFrame.env[p])
		}
		o.Replay = &replaySpec{fn: x.top, params: ps, entry: x.topFrame.entry, x: x}
	}
	x.obls = append(x.obls, o)
	return o
}

// check: emit obligation, then continue under the assumption that it holds.
func (x *Exec) check(st *State, kind, name string, goal Term, props []string, desc, where string) {
	if goal.S == "true" {
		return
	}
	x.obligation(st, kind, name, goal, props, desc, where)
	x.sc.Assume(Implies(st.reach, x.plain(goal)))
}

func (x *Exec) assume(st *State, t Term) {
	x.sc.Assume(Implies(st.reach, x.plain(t)))
}

// plain strips the offered witness disjuncts again (an equivalent formula):
// they help to prove an existential, as an assumption they only add case splits.
func (x *Exec) plain(t Term) Term {
	if len(x.offeredForms) == 0 {
		return t
	}
	// longest first: nested existentials
	sort.Slice(x.offeredForms, func(i, j int) bool { return len(x.offeredForms[i][0]) > len(x.offeredForms[j][0]) })
	for _, p := range x.offeredForms {
		if strings.Contains(t.S, p[0]) {
			t.S = strings.ReplaceAll(t.S, p[0], p[1])
		}
	}
	x.offeredForms = nil
	return t
}

// ---------------------------------------------------------------------------

func (x *Exec) pos(p token.Pos) string {
	if !p.IsValid() {
		return ""
	}
	pp := x.w.prog.Fset.Position(p)
	return fmt.Sprintf("%s:%d", strings.TrimPrefix(pp.Filename, "/repo/"), pp.Line)
}

// snippet gives a normalised source line for obligation naming (never a line number).
func (x *Exec) snippet(p token.Pos) string {
	if !p.IsValid() {
		return ""
	}
	pp := x.w.prog.Fset.Position(p)
	line := x.w.sourceLine(pp.Filename, pp.Line)
	line = strings.Join(strings.Fields(line), " ")
	if len(line) > 60 {
		line = line[:60]
	}
	return line
}

func (x *Exec) newFrame(fn *ssa.Function, inline bool) *Frame {
	x.nframes++
	fr := &Frame{id: x.nframes, fn: fn, env: map[ssa.Value]*Val{}, inline: inline, names: map[string]*Val{}}
	if fn.Pkg != nil {
		fr.pkg = fn.Pkg.Pkg
	} else if fn.Parent() != nil && fn.Parent().Pkg != nil {
		fr.pkg = fn.Parent().Pkg.Pkg
	}
	return fr
}

// symbolic value of a Go type with the type invariant assumed
func (x *Exec) freshVal(st *State, name string, t types.Type) *Val {
	if tup, ok := t.(*types.Tuple); ok {
		v := &Val{Ty: t}
		for i := 0; i < tup.Len(); i++ {
			v.Tuple = append(v.Tuple, x.freshVal(st, fmt.Sprintf("%s_%d", name, i), tup.At(i).Type()))
		}
		return v
	}
	term := x.sc.Fresh(name, x.sortOf(t))
	x.assume(st, x.typeInv(term, t, st, 2))
	return &Val{T: term, Ty: t}
}

// term of a value (pointers with known location are rendered)
func (x *Exec) term(v *Val) Term {
	if v.T.S != "" {
		return v.T
	}
	if v.Loc != nil {
		return x.ptrTerm(v.Loc)
	}
	if v.Clo != nil || v.Fn != nil {
		name := "fnval_"
		if v.Fn != nil {
			name += mangleIdent(v.Fn.String())
		} else {
			name += mangleIdent(v.Clo.Fn.String())
		}
		x.sc.Decl("fn:"+name, fmt.Sprintf("(declare-const %s Fn)\n(assert (not (= %s fn_nil)))", name, name))
		return Term{name, "Fn"}
	}
	panic(fmt.Sprintf("term: value without term (type %v)", v.Ty))
}

func (x *Exec) constVal(c *ssa.Const) *Val {
	t := c.Type()
	if c.Value == nil { // zero value / nil
		if tp, ok := t.(*types.Tuple); ok {
			v := &Val{Ty: t}
			for i := 0; i < tp.Len(); i++ {
				v.Tuple = append(v.Tuple, &Val{T: x.zeroOf(tp.At(i).Type()), Ty: tp.At(i).Type()})
			}
			return v
		}
		return &Val{T: x.zeroOf(t), Ty: t}
	}
	switch u := t.Underlying().(type) {
	case *types.Basic:
		switch {
		case u.Info()&types.IsBoolean != 0:
			if constant.BoolVal(c.Value) {
				return &Val{T: TTrue, Ty: t}
			}
			return &Val{T: TFalse, Ty: t}
		case u.Info()&types.IsInteger != 0:
			w := intWidth(u)
			if i, ok := constant.Int64Val(constant.ToInt(c.Value)); ok {
				return &Val{T: BVConst(uint64(i), w), Ty: t}
			}
			if ui, ok := constant.Uint64Val(constant.ToInt(c.Value)); ok {
				return &Val{T: BVConst(ui, w), Ty: t}
			}
		case u.Info()&types.IsString != 0:
			return &Val{T: x.strLit(constant.StringVal(c.Value)), Ty: t}
		case u.Info()&types.IsFloat != 0:
			return &Val{T: x.sc.Fresh("float", "F64"), Ty: t}
		}
	}
	panic("constVal: " + c.String())
}

func (x *Exec) val(fr *Frame, v ssa.Value) *Val {
	switch c := v.(type) {
	case *ssa.Const:
		return x.constVal(c)
	case *ssa.Function:
		return &Val{Fn: c, Ty: c.Type()}
	case *ssa.Global:
		return x.globalVal(c)
	case *ssa.Builtin:
		return &Val{Ty: c.Type()}
	}
	r, ok := fr.env[v]
	if !ok {
		panic(fmt.Sprintf("val: undefined SSA value %s = %s in %s", v.Name(), v, fr.fn))
	}
	return r
}

// globals: immutable ones (stored only in init) are constants; error sentinels are distinct.
func (x *Exec) globalVal(g *ssa.Global) *Val {
	elem := g.Type().(*types.Pointer).Elem()
	key := cellKey{0, "global_" + mangleIdent(g.Pkg.Pkg.Path()+"."+g.Name())}
	return &Val{Loc: &Loc{Kind: LCell, Cell: key, T: elem, Global: g}, Ty: g.Type()}
}

func (x *Exec) globalInit(st *State, g *ssa.Global) Term {
	elem := g.Type().(*types.Pointer).Elem()
	name := "glob_" + mangleIdent(strings.TrimPrefix(g.Pkg.Pkg.Path(), "github.com/indexsupply/shovel/")+"."+g.Name())
	t := Term{name, x.sortOf(elem)}
	decl := fmt.Sprintf("(declare-const %s %s)", name, t.Sort)
	if types.Identical(elem, errorType) {
		// sentinel errors are created once by errors.New: non-nil, pairwise distinct, wrap nothing
		decl += fmt.Sprintf("\n(assert (not (= %s inil)))\n(assert (forall ((e Iface)) (! (= (wraps %s e) false) :pattern ((wraps %s e)))))", name, name, name)
		x.errSentinels = appendUnique(x.errSentinels, name)
	}
	// string tables initialised by constant composite literals: length and contents are known
	if sl, ok := elem.Underlying().(*types.Slice); ok && isString(sl.Elem()) {
		if tbl, ok := x.w.stringTable(g.Pkg.Pkg.Path(), g.Name()); ok && x.globalStored(g) {
			hs := x.heapName(sl.Elem())
			x.heapDecl(sl.Elem())
			decl += fmt.Sprintf("\n(assert (and (> (sbase %s) 0) (= (soff %s) #x0000000000000000) (= (slen %s) %s) (= (scap %s) %s) (select alloc_init (sbase %s))))", name, name, name, bv64(uint64(len(tbl))).S, name, bv64(uint64(len(tbl))).S, name)
			for i, s := range tbl {
				decl += fmt.Sprintf("\n(assert (= (select (select %s_init (sbase %s)) %s) %s))", hs, name, bv64(uint64(i)).S, x.strLit(s).S)
			}
			x.assumeNote("package-level string tables are never written after initialisation (checked: no store to them outside init)")
		}
	}
	x.sc.Decl("glob:"+name, decl)
	return t
}

// globalStored reports whether the global is only assigned in the package initialiser.
func (x *Exec) globalStored(g *ssa.Global) bool {
	for _, m := range g.Pkg.Members {
		fn, ok := m.(*ssa.Function)
		if !ok || fn.Name() == "init" {
			continue
		}
		for _, b := range fn.Blocks {
			for _, ins := range b.Instrs {
				if st, ok := ins.(*ssa.Store); ok && st.Addr == ssa.Value(g) {
					return false
				}
			}
		}
	}
	return true
}

var errorType = types.Universe.Lookup("error").Type()

func appendUnique(xs []string, s string) []string {
	for _, y := range xs {
		if y == s {
			return xs
		}
	}
	return append(xs, s)
}

// ---------------------------------------------------------------------------
// Function body execution

func (x *Exec) computeLoops(fr *Frame) {
	fn := fr.fn
	// source names of single-assignment values
	fr.debugNames = map[string]ssa.Value{}
	fr.debugAll = map[string][]ssa.Value{}
	multi := map[string]bool{}
	for _, b := range fn.Blocks {
		for _, ins := range b.Instrs {
			d, ok := ins.(*ssa.DebugRef)
			if !ok || d.IsAddr {
				continue
			}
			id, ok := d.Expr.(*ast.Ident)
			if !ok {
				continue
			}
			if _, isPhi := d.X.(*ssa.Phi); isPhi {
				multi[id.Name] = true
				continue
			}
			if _, isConst := d.X.(*ssa.Const); isConst {
				continue
			}
			if old, ok := fr.debugNames[id.Name]; ok && old != d.X {
				multi[id.Name] = true
			}
			fr.debugNames[id.Name] = d.X
			dup := false
			for _, o := range fr.debugAll[id.Name] {
				if o == d.X {
					dup = true
				}
			}
			if !dup {
				fr.debugAll[id.Name] = append(fr.debugAll[id.Name], d.X)
			}
		}
	}
	for n := range multi {
		delete(fr.debugNames, n)
	}
	fr.loops = map[*ssa.BasicBlock]*loopInfo{}
	var heads []*ssa.BasicBlock
	for _, b := range fn.Blocks {
		for _, s := range b.Succs {
			if s.Dominates(b) { // back edge b -> s
				li := fr.loops[s]
				if li == nil {
					li = &loopInfo{head: s, body: map[*ssa.BasicBlock]bool{s: true}}
					fr.loops[s] = li
					heads = append(heads, s)
				}
				// natural loop: all blocks that reach b without passing s
				stack := []*ssa.BasicBlock{b}
				for len(stack) > 0 {
					n := stack[len(stack)-1]
					stack = stack[:len(stack)-1]
					if li.body[n] {
						continue
					}
					li.body[n] = true
					stack = append(stack, n.Preds...)
				}
			}
		}
	}
	// ordinal = source order of the loop head position
	sort.Slice(heads, func(i, j int) bool {
		pi, pj := loopPos(heads[i]), loopPos(heads[j])
		if pi != pj {
			return pi < pj
		}
		return heads[i].Index < heads[j].Index
	})
	for i, h := range heads {
		fr.loops[h].ordinal = i
	}
}

func loopPos(b *ssa.BasicBlock) token.Pos {
	// position of the first instruction with a valid position in the head or any body block
	best := token.NoPos
	for _, ins := range b.Instrs {
		if p := ins.Pos(); p.IsValid() {
			if !best.IsValid() || p < best {
				best = p
			}
		}
	}
	if !best.IsValid() {
		for _, s := range b.Succs {
			for _, ins := range s.Instrs {
				if p := ins.Pos(); p.IsValid() && (!best.IsValid() || p < best) {
					best = p
				}
			}
		}
	}
	return best
}

func isBackEdge(from, to *ssa.BasicBlock) bool { return to.Dominates(from) }

// topological order ignoring back edges
func topoOrder(fn *ssa.Function) []*ssa.BasicBlock {
	var order []*ssa.BasicBlock
	seen := map[*ssa.BasicBlock]bool{}
	var dfs func(b *ssa.BasicBlock)
	dfs = func(b *ssa.BasicBlock) {
		seen[b] = true
		for _, s := range b.Succs {
			if !seen[s] && !isBackEdge(b, s) {
				dfs(s)
			}
		}
		order = append(order, b)
	}
	if len(fn.Blocks) > 0 {
		dfs(fn.Blocks[0])
	}
	if fn.Recover != nil && !seen[fn.Recover] {
		// recover block is only reachable through a recovered panic; not modelled
	}
	for i, j := 0, len(order)-1; i < j; i, j = i+1, j-1 {
		order[i], order[j] = order[j], order[i]
	}
	return order
}

type edgeState struct {
	from *ssa.BasicBlock
	st   *State
}

// runBody executes fn's blocks from the given entry state. Results are
// collected in fr.rets.
func (x *Exec) runBody(fr *Frame, entry *State) {
	fn := fr.fn
	if len(fn.Blocks) == 0 {
		x.unsupported("function without body: " + fn.String())
		return
	}
	x.computeLoops(fr)
	incoming := map[*ssa.BasicBlock][]edgeState{}
	order := topoOrder(fn)
	incoming[fn.Blocks[0]] = []edgeState{{nil, entry}}
	for _, b := range order {
		ins := incoming[b]
		var states []*State
		var live []edgeState
		for _, e := range ins {
			if e.st != nil && !e.st.dead && e.st.reach.S != "false" {
				states = append(states, e.st)
				live = append(live, e)
			}
		}
		if len(states) == 0 {
			continue
		}
		// a small latch block (i++ and the jump back) reached from several paths is
		// executed once per path: the invariant is then checked per path instead of
		// on a merged state (far easier for the solvers; same meaning)
		if len(states) > 1 && x.isSplittableLatch(fr, b) {
			for k, s1 := range states {
				x.sc.Comment(fmt.Sprintf("block %s.%d %s (path %d)", fn.Name(), b.Index, b.Comment, k))
				one := []edgeState{live[k]}
				for _, ins := range b.Instrs {
					phi, ok := ins.(*ssa.Phi)
					if !ok {
						break
					}
					fr.env[phi] = x.phiMerge(fr, phi, b, one)
				}
				for _, ins := range b.Instrs {
					if _, ok := ins.(*ssa.Phi); ok {
						continue
					}
					if x.step(fr, s1, ins, incoming) {
						break
					}
				}
			}
			continue
		}
		st := x.merge(states)
		x.sc.Comment(fmt.Sprintf("block %s.%d %s", fn.Name(), b.Index, b.Comment))
		// vacuity guard: a block entered shortly after a modelled or contracted
		// call must be reachable (a model whose success case contradicts the
		// representation invariants would make everything after it vacuous)
		if (x.coverBudget > 0 || thoroughTier) && (x.blockCovers < 80 || thoroughTier) && len(b.Preds) > 0 && !x.declaredDead(fr, b) && !defensiveExit(b) {
			x.coverBudget--
			x.blockCovers++
			cname := fmt.Sprintf("%s:block#%d:cover", x.fname(fr), b.Index)
			if fr.inline {
				// a block of an inlined callee (this is where the Source.Get hole sat)
				x.oblCount[cname]++
				cname = fmt.Sprintf("%s:inlined %s block#%d:cover#%d", x.curFunc, fn.Name(), b.Index, x.oblCount[cname])
			}
			o := x.obligation(st, "cover", cname, TFalse, fnProps(fr), "block "+b.Comment+" reachable", "")
			o.Cover = true
		}
		// phis
		phiVals := map[*ssa.Phi]*Val{}
		for _, ins := range b.Instrs {
			phi, ok := ins.(*ssa.Phi)
			if !ok {
				break
			}
			phiVals[phi] = x.phiMerge(fr, phi, b, live)
		}
		li := fr.loops[b]
		if li != nil {
			// loop head: assert invariant on entry, havoc, assume invariant
			for p, v := range phiVals {
				fr.env[p] = v
			}
			li.entrySt = st.clone()
			x.loopEntry(fr, li, st)
			x.havocLoop(fr, li, st)
			x.loopAssume(fr, li, st)
		} else {
			for p, v := range phiVals {
				fr.env[p] = v
			}
		}
		// instructions
		dead := false
		for _, ins := range b.Instrs {
			if _, ok := ins.(*ssa.Phi); ok {
				continue
			}
			if x.step(fr, st, ins, incoming) {
				dead = true
				break
			}
		}
		_ = dead
	}
}

func (x *Exec) phiMerge(fr *Frame, phi *ssa.Phi, b *ssa.BasicBlock, live []edgeState) *Val {
	var vals []*Val
	var conds []Term
	for _, e := range live {
		// find predecessor index
		for i, p := range b.Preds {
			if p == e.from {
				vals = append(vals, x.val(fr, phi.Edges[i]))
				conds = append(conds, e.st.reach)
				break
			}
		}
	}
	if len(vals) == 0 {
		return &Val{T: x.zeroOf(phi.Type()), Ty: phi.Type()}
	}
	return x.mergeVals(phi.Comment, phi.Type(), vals, conds)
}

func (x *Exec) mergeVals(name string, t types.Type, vals []*Val, conds []Term) *Val {
	if len(vals) == 1 {
		return vals[0]
	}
	if tup, ok := t.(*types.Tuple); ok {
		out := &Val{Ty: t}
		for i := 0; i < tup.Len(); i++ {
			var sub []*Val
			for _, v := range vals {
				sub = append(sub, v.Tuple[i])
			}
			out.Tuple = append(out.Tuple, x.mergeVals(fmt.Sprintf("%s_%d", name, i), tup.At(i).Type(), sub, conds))
		}
		return out
	}
	allSame := true
	for _, v := range vals[1:] {
		if v != vals[0] {
			allSame = false
		}
	}
	if allSame {
		return vals[0]
	}
	// closures / functions: must be identical statically
	if vals[0].Clo != nil || vals[0].Fn != nil {
		x.unsupported("phi of function values")
	}
	res := x.term(vals[len(vals)-1])
	for i := len(vals) - 2; i >= 0; i-- {
		res = Ite(conds[i], x.term(vals[i]), res)
	}
	return &Val{T: x.sc.Define("phi_"+name, res), Ty: t}
}

// ---------------------------------------------------------------------------
// loops

func (x *Exec) loopClauses(fr *Frame, li *loopInfo, kind string) []*Clause {
	if fr.c == nil {
		return nil
	}
	var out []*Clause
	for _, c := range fr.c.Clauses {
		if c.Kind == kind && c.Loop == li.ordinal {
			out = append(out, c)
		}
	}
	return out
}

// loop variable names visible to an invariant: phis of the head (by source
// name) and cells (allocs) by their comment.
func (x *Exec) loopEnv(fr *Frame, li *loopInfo, st *State, override map[*ssa.Phi]*Val) *CEnv {
	env := x.contractEnv(fr, st)
	// a parameter whose address is taken lives in a cell: inside a loop its name
	// means the current value (like every other variable); old(name) stays the
	// entry value
	for name, v := range fr.names {
		if v.Loc == nil {
			continue
		}
		if _, isParam := env.oldVars[name]; isParam {
			if cur := env.vars[name]; cur != nil && !cur.Lazy {
				env.vars[name] = &CV{T: x.load(st, v.Loc), Ty: v.Loc.T, Addr: v.Loc, Lazy: true}
			}
		}
	}
	// source variables merged before the loop: nearest dominating phi wins
	var doms []*ssa.BasicBlock
	for b := li.head.Idom(); b != nil; b = b.Idom() {
		doms = append(doms, b)
	}
	for k := len(doms) - 1; k >= 0; k-- {
		for _, ins := range doms[k].Instrs {
			phi, ok := ins.(*ssa.Phi)
			if !ok {
				break
			}
			if v := fr.env[phi]; v != nil && phi.Comment != "" {
				env.vars[phi.Comment] = x.cvOfVal(v)
			}
		}
	}
	// names assigned more than once: the assignment whose block dominates this loop (nearest one)
	for name, vals := range fr.debugAll {
		if _, ok := env.vars[name]; ok {
			continue
		}
		var best ssa.Value
		for _, v := range vals {
			ins, ok := v.(ssa.Instruction)
			if !ok || ins.Block() == nil || !ins.Block().Dominates(li.head) {
				continue
			}
			if _, defined := fr.env[v]; !defined {
				continue
			}
			if best == nil || best.(ssa.Instruction).Block().Dominates(ins.Block()) {
				best = v
			}
		}
		if best != nil {
			cv := x.cvOfVal(fr.env[best])
			cv.Ty = best.Type()
			env.vars[name] = cv
		}
	}
	// string iterators of this loop: byte offset of the next rune
	nIt := 0
	for _, ins := range li.head.Instrs {
		if nx, ok := ins.(*ssa.Next); ok && nx.IsString {
			if r, ok := nx.Iter.(*ssa.Range); ok {
				if pos, ok := st.cells[cellKey{fr.id, "iter_" + r.Name()}]; ok {
					name := "rangepos"
					if nIt > 0 {
						name = fmt.Sprintf("rangepos%d", nIt)
					}
					env.vars[name] = &CV{T: pos, Ty: types.Typ[types.Int]}
					nIt++
				}
			}
		}
	}
	for _, ins := range li.head.Instrs {
		if nx, ok := ins.(*ssa.Next); ok && !nx.IsString {
			if r, ok := nx.Iter.(*ssa.Range); ok {
				if vis, ok := st.cells[cellKey{fr.id, "iter_" + r.Name()}]; ok {
					env.vars["rangevisited"] = &CV{T: vis}
				}
			}
		}
	}
	for _, ins := range li.head.Instrs {
		phi, ok := ins.(*ssa.Phi)
		if !ok {
			break
		}
		if phi.Comment == "" {
			continue
		}
		v := fr.env[phi]
		if override != nil {
			if ov, ok := override[phi]; ok {
				v = ov
			}
		}
		if v != nil {
			env.vars[phi.Comment] = x.cvOfVal(v)
		}
	}
	// index phis of the other range loops already executed (an inner loop left
	// by break): rangeindex_<ordinal>, the index of the last completed iteration
	for _, other := range fr.loops {
		if other == li {
			continue
		}
		for _, ins := range other.head.Instrs {
			phi, ok := ins.(*ssa.Phi)
			if !ok {
				break
			}
			if phi.Comment == "rangeindex" {
				if v := fr.env[phi]; v != nil {
					env.vars[fmt.Sprintf("rangeindex_%d", other.ordinal)] = x.cvOfVal(v)
				}
			}
		}
	}
	// implicit range index: the phi named "rangeindex" is exposed as "idx"
	if li.entrySt != nil {
		env.loopEntry = li.entrySt
	}
	return env
}

func (x *Exec) autoInvariants(fr *Frame, li *loopInfo, override map[*ssa.Phi]*Val) []Term {
	// range-over-slice loops: -1 <= idx < len is maintained by construction;
	// we state idx >= -1 only (the upper bound follows from the loop test).
	var out []Term
	for _, ins := range li.head.Instrs {
		phi, ok := ins.(*ssa.Phi)
		if !ok {
			break
		}
		if phi.Comment == "rangeindex" {
			v := fr.env[phi]
			if override != nil {
				if ov, ok := override[phi]; ok {
					v = ov
				}
			}
			out = append(out, App(SBool, "bvsge", x.term(v), bv64(^uint64(0))))
			out = append(out, App(SBool, "bvslt", x.term(v), bv64(maxLen)))
			// idx < len: the head computes idx+1 and compares it with the length
			for _, i2 := range li.head.Instrs {
				add, ok := i2.(*ssa.BinOp)
				if !ok || add.Op != token.ADD || add.X != ssa.Value(phi) {
					continue
				}
				for _, i3 := range li.head.Instrs {
					cmp, ok := i3.(*ssa.BinOp)
					if !ok || cmp.Op != token.LSS || cmp.X != ssa.Value(add) {
						continue
					}
					if lv, ok := fr.env[cmp.Y]; ok {
						out = append(out, App(SBool, "bvslt", x.term(v), x.term(lv)))
					} else if c, ok := cmp.Y.(*ssa.Const); ok {
						out = append(out, App(SBool, "bvslt", x.term(v), x.constVal(c).T))
					}
				}
			}
		}
	}
	return out
}

func (x *Exec) loopEntry(fr *Frame, li *loopInfo, st *State) {
	for i, c := range x.loopClauses(fr, li, "invariant") {
		env := x.loopEnv(fr, li, st, nil).proving()
		parts := conjuncts(c.Expr)
		for pi, pe := range parts {
			t, err := x.evalBool(env, pe)
			if err != nil {
				x.unsupported(fmt.Sprintf("%s loop#%d invariant: %v", fr.fn.Name(), li.ordinal, err))
				continue
			}
			x.check(st, "invariant-entry", partName(fmt.Sprintf("%s:loop#%d:inv%d:entry", x.fname(fr), li.ordinal, i), pi, len(parts)), t,
				clauseProps(fr, c), c.Text, fmt.Sprintf("%s:%d", c.File, c.Line))
		}
	}
}

func (x *Exec) loopAssume(fr *Frame, li *loopInfo, st *State) {
	for _, t := range x.autoInvariants(fr, li, nil) {
		x.assume(st, t)
	}
	for _, c := range x.loopClauses(fr, li, "invariant") {
		env := x.loopEnv(fr, li, st, nil).assuming()
		t, err := x.evalBool(env, c.Expr)
		if err != nil {
			continue
		}
		x.assume(st, t)
	}
	// cover: the loop body must be reachable under the invariant
	o := x.obligation(st, "cover", fmt.Sprintf("%s:loop#%d:cover", x.fname(fr), li.ordinal), TFalse, fnProps(fr), "loop head reachable under invariant", "")
	o.Cover = true
}

func (x *Exec) loopBackEdge(fr *Frame, li *loopInfo, st *State, from *ssa.BasicBlock) {
	// phi operands for this edge
	override := map[*ssa.Phi]*Val{}
	for _, ins := range li.head.Instrs {
		phi, ok := ins.(*ssa.Phi)
		if !ok {
			break
		}
		for i, p := range li.head.Preds {
			if p == from {
				override[phi] = x.val(fr, phi.Edges[i])
			}
		}
	}
	for i, c := range x.loopClauses(fr, li, "invariant") {
		env := x.loopEnv(fr, li, st, override).proving()
		parts := conjuncts(c.Expr)
		name := fmt.Sprintf("%s:loop#%d:inv%d:preserved", x.fname(fr), li.ordinal, i)
		for pi, pe := range parts {
			t, err := x.evalBool(env, pe)
			if err != nil {
				x.unsupported(fmt.Sprintf("%s loop#%d invariant: %v", fr.fn.Name(), li.ordinal, err))
				continue
			}
			x.check(st, "invariant-preserved", partName(name, pi, len(parts)), t,
				clauseProps(fr, c), c.Text, fmt.Sprintf("%s:%d", c.File, c.Line))
		}
	}
	// variant
	for i, c := range x.loopClauses(fr, li, "decreases") {
		envNew := x.loopEnv(fr, li, st, override)
		envOld := x.loopEnv(fr, li, li.entrySt, nil) // head values (havocked constants)
		envOld.st = st
		nv, err1 := x.eval(envNew, c.Expr)
		ov, err2 := x.eval(envOld, c.Expr)
		if err1 != nil || err2 != nil {
			x.unsupported(fmt.Sprintf("%s loop#%d decreases: %v %v", fr.fn.Name(), li.ordinal, err1, err2))
			continue
		}
		nt, ot := x.cvTerm(nv, nil), x.cvTerm(ov, nil)
		goal := And(App(SBool, "bvslt", nt, ot), App(SBool, "bvsge", ot, BVConst(0, ot.Sort.BVWidth())))
		x.check(st, "variant", fmt.Sprintf("%s:loop#%d:variant%d", x.fname(fr), li.ordinal, i), goal,
			clauseProps(fr, c), c.Text, fmt.Sprintf("%s:%d", c.File, c.Line))
	}
}

// havocLoop replaces everything the loop may modify by fresh constants.
func (x *Exec) havocLoop(fr *Frame, li *loopInfo, st *State) {
	for _, ins := range li.head.Instrs {
		phi, ok := ins.(*ssa.Phi)
		if !ok {
			break
		}
		nv := x.freshVal(st, "loop_"+phi.Comment, phi.Type())
		old := fr.env[phi]
		if old != nil && (old.Clo != nil || old.Fn != nil) {
			nv = old
		}
		fr.env[phi] = nv
	}
	mods := x.modsOfBlocks(fr, li.body)
	if os.Getenv("VC_DEBUGMODS") != "" {
		fmt.Fprintf(os.Stderr, "MODS %s loop#%d heaps=%v params=%v all=%v ext=%v\n", fr.fn.Name(), li.ordinal, sortedKeys(mods.heaps), mods.params, mods.allHeaps, mods.extHeaps)
	}
	var pv []*Val
	for _, q := range fr.fn.Params {
		pv = append(pv, fr.env[q])
	}
	x.havocMods(fr, st, mods, fmt.Sprintf("loop%d", li.ordinal), pv...)
}

func (x *Exec) havocMods(fr *Frame, st *State, mods *modSet, why string, pvals ...*Val) {
	// objects written through pointer parameters: only the pointee changes
	x.inHavoc = true
	defer func() { x.inHavoc = false }()
	for _, k := range sortedIntKeys(mods.params) {
		elem := mods.params[k]
		if k >= len(pvals) || pvals[k] == nil {
			if h := x.heapName(elem); h != "" {
				mods.heaps[h] = true // unknown argument: fall back to the heap of that type
			}
			continue
		}
		pv := pvals[k]
		var loc *Loc
		if pv.Loc != nil {
			loc = pv.Loc
			if loc.T == nil {
				loc.T = elem
			}
		} else {
			loc = x.locOfPtr(x.term(pv), elem)
		}
		if loc.Kind == LCell {
			nv := x.sc.Fresh("pointee_"+why, x.sortOf(elem))
			x.store(st, loc, nv)
			x.assume(st, x.typeInv(nv, elem, st, 2))
			continue
		}
		// a nil argument points nowhere: the write happens only for a real object
		old := x.load(st, loc)
		nv := x.sc.Fresh("pointee_"+why, x.sortOf(elem))
		x.assume(st, x.typeInv(nv, elem, st, 2))
		if loc.NilOK.S != "" && !strings.HasPrefix(string(nv.Sort), "(Array") {
			x.store(st, loc, Ite(loc.NilOK, nv, old))
		} else {
			x.store(st, loc, nv)
		}
	}
	for _, h := range sortedKeys(mods.heaps) {
		hs, ok := x.heapSorts[h]
		if !ok {
			continue
		}
		st.heaps[h] = x.sc.Fresh(h+"_"+why, hs)
	}
	if mods.extHeaps && !mods.allHeaps {
		for _, h := range sortedHeapNames(x.heapSorts) {
			if mods.heaps[h] {
				continue // already havocked above
			}
			if t, ok := x.heapTypes[h]; ok && isRepoType(t) {
				continue
			}
			st.heaps[h] = x.sc.Fresh(h+"_"+why, x.heapSorts[h])
		}
	}
	if mods.allHeaps {
		for _, h := range sortedHeapNames(x.heapSorts) {
			st.heaps[h] = x.sc.Fresh(h+"_"+why, x.heapSorts[h])
		}
	}
	for k := range mods.cells {
		ck := cellKey{fr.id, k}
		if old, ok := st.cells[ck]; ok {
			st.cells[ck] = x.sc.Fresh("cell_"+k+"_"+why, old.Sort)
			if t, ok := mods.cellTypes[k]; ok {
				x.assume(st, x.typeInv(st.cells[ck], t, st, 2))
			}
		} else if t, ok := mods.cellTypes[k]; ok {
			st.cells[ck] = x.sc.Fresh("cell_"+k+"_"+why, x.sortOf(t))
			x.assume(st, x.typeInv(st.cells[ck], t, st, 2))
		}
	}
	for _, g := range sortedKeys(mods.ghost) {
		if old, ok := st.ghost[g]; ok {
			st.ghost[g] = x.sc.Fresh("ghost_"+g+"_"+why, old.Sort)
		}
	}
	if mods.alloc {
		na := x.sc.Fresh("alloc_"+why, st.alloc.Sort)
		// allocation only grows
		x.sc.Assume(T(SBool, "(forall ((a Int)) (! (=> (select %s a) (select %s a)) :pattern ((select %s a))))", st.alloc.S, na.S, na.S))
		st.alloc = na
	}
}

func (x *Exec) fname(fr *Frame) string {
	return relFuncName(fr.fn)
}

func relFuncName(fn *ssa.Function) string {
	pkg := fn.Pkg
	if pkg == nil && fn.Parent() != nil {
		pkg = fn.Parent().Pkg
	}
	if pkg == nil {
		return fn.String()
	}
	p := strings.TrimPrefix(pkg.Pkg.Path(), "github.com/indexsupply/shovel/")
	return p + "." + fn.RelString(pkg.Pkg)
}

func fnProps(fr *Frame) []string {
	if fr.c != nil {
		return fr.c.Props
	}
	return nil
}

func clauseProps(fr *Frame, c *Clause) []string {
	if len(c.Props) > 0 {
		return c.Props
	}
	return fnProps(fr)
}

func isRepoType(t types.Type) bool {
	if p, ok := t.(*types.Pointer); ok {
		t = p.Elem()
	}
	n, ok := t.(*types.Named)
	return ok && n.Obj().Pkg() != nil && strings.HasPrefix(n.Obj().Pkg().Path(), repoMod)
}

func sortedIntKeys(m map[int]types.Type) []int {
	var ks []int
	for k := range m {
		ks = append(ks, k)
	}
	sort.Ints(ks)
	return ks
}

// declaredDead: the contract lists the block (by the source text of one of its
// statements or of the branch leading to it) as unreachable.
func (x *Exec) declaredDead(fr *Frame, b *ssa.BasicBlock) bool {
	if fr.c == nil {
		return false
	}
	var texts []string
	for _, cl := range fr.c.Clauses {
		if cl.Kind == "unreachable" {
			texts = append(texts, strings.Join(strings.Fields(cl.Text), " "))
		}
	}
	if len(texts) == 0 {
		return false
	}
	var lines []string
	add := func(p token.Pos) {
		if p.IsValid() {
			pp := x.w.prog.Fset.Position(p)
			lines = append(lines, strings.Join(strings.Fields(x.w.sourceLine(pp.Filename, pp.Line)), " "))
		}
	}
	for _, ins := range b.Instrs {
		add(ins.Pos())
	}
	for _, p := range b.Preds {
		if len(p.Instrs) > 0 {
			if iff, ok := p.Instrs[len(p.Instrs)-1].(*ssa.If); ok {
				add(iff.Cond.Pos())
			}
		}
	}
	for _, l := range lines {
		for _, t := range texts {
			if t != "" && strings.Contains(l, t) {
				return true
			}
		}
	}
	return false
}

// thoroughTier: every block of every function under contract gets a reachability cover
var thoroughTier bool

// defensiveExit: a block that only builds an error (or logs) and returns or
// panics. Such a block may well be unreachable under the contract's
// preconditions (defensive code); its unreachability is not evidence of a
// contradictory model, so it gets no reachability cover. A block that goes on
// with the function's work does.
func defensiveExit(b *ssa.BasicBlock) bool {
	for depth := 0; depth < 3 && b != nil; depth++ {
		for _, ins := range b.Instrs {
			switch i := ins.(type) {
			case *ssa.Return, *ssa.Panic:
				return true
			case *ssa.Call:
				n := calleeName(i.Common())
				if !(strings.Contains(n, "slog.") || strings.HasPrefix(n, "fmt.") || strings.HasPrefix(n, "errors.") || strings.HasPrefix(n, "builtin.")) {
					return false
				}
			case *ssa.Store:
				if a, ok := rootOf(i.Addr).(*ssa.Alloc); !ok || a.Heap && a.Comment != "varargs" && a.Comment != "complit" {
					// named results live in allocs too: a store to a local is fine
					if !ok {
						return false
					}
				}
			case *ssa.MapUpdate, *ssa.Go, *ssa.Defer, *ssa.Send:
				return false
			}
		}
		if len(b.Succs) != 1 {
			return false
		}
		b = b.Succs[0]
	}
	return false
}

// isSplittableLatch: b only computes values and jumps back to the head of a
// loop it belongs to (no calls, no stores, no branching).
func (x *Exec) isSplittableLatch(fr *Frame, b *ssa.BasicBlock) bool {
	if len(b.Succs) != 1 {
		return false
	}
	li := fr.loops[b.Succs[0]]
	if li == nil || !li.body[b] || fr.loops[b] != nil {
		return false
	}
	if len(b.Instrs) > 8 {
		return false
	}
	for _, ins := range b.Instrs {
		switch ins.(type) {
		case *ssa.Phi, *ssa.BinOp, *ssa.UnOp, *ssa.Jump, *ssa.DebugRef, *ssa.Convert, *ssa.ChangeType:
		default:
			return false
		}
	}
	for _, ins := range b.Instrs {
		if u, ok := ins.(*ssa.UnOp); ok && u.Op == token.MUL {
			return false // a load: keep the merged treatment
		}
	}
	return true
}
