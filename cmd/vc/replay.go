package main

// Replay of solver counterexamples on the real code. The model's inputs are
// materialised as Go values in a test that is injected into the real package
// with `go test -overlay` (nothing is written to the repository). A
// postcondition counterexample is confirmed when the real function, run on the
// model's input, produces exactly the output the model predicts (for which the
// solver has shown the postcondition false); a no-panic counterexample is
// confirmed when the real function panics.

import (
	"encoding/json"
	"fmt"
	"go/types"
	"os"
	"os/exec"
	"path/filepath"
	"strconv"
	"strings"
	"time"

	"golang.org/x/tools/go/ssa"
)

type replaySpec struct {
	fn      *ssa.Function
	params  []*Val
	results []*Val
	entry   *State
	final   *State
	x       *Exec
}

const replayMaxLen = 48
const replaySliceMax = 3

var replayImports map[string]string

type matVal struct {
	goExpr  string   // Go expression constructing the value
	queries []string // SMT terms whose values are needed
	build   func(vals map[string]string) (string, bool)
}

// materialiser for a term of Go type t in state st
func (x *Exec) materialise(t types.Type, term Term, st *State, depth int) (*matVal, []string) {
	switch u := t.Underlying().(type) {
	case *types.Basic:
		switch {
		case u.Info()&types.IsBoolean != 0:
			return &matVal{queries: []string{term.S}, build: func(v map[string]string) (string, bool) {
				return v[term.S], v[term.S] == "true" || v[term.S] == "false"
			}}, nil
		case u.Info()&types.IsInteger != 0:
			w := term.Sort.BVWidth()
			return &matVal{queries: []string{term.S}, build: func(v map[string]string) (string, bool) {
				n, ok := parseBV(v[term.S])
				if !ok {
					return "", false
				}
				if isSigned(t) {
					sv := int64(n)
					if w < 64 && n&(1<<uint(w-1)) != 0 {
						sv = int64(n) - (1 << uint(w))
					}
					return fmt.Sprintf("%s(%d)", types.TypeString(t, qualifier), sv), true
				}
				return fmt.Sprintf("%s(%d)", types.TypeString(t, qualifier), n), true
			}}, nil
		case u.Info()&types.IsString != 0:
			ln := App(SBV64, "gs.len", term).S
			qs := []string{ln}
			for i := 0; i < replayMaxLen; i++ {
				qs = append(qs, App(SBV8, "gs.at", term, bv64(uint64(i))).S)
			}
			bound := []string{fmt.Sprintf("(bvule %s %s)", ln, bv64(replayMaxLen).S)}
			return &matVal{queries: qs, build: func(v map[string]string) (string, bool) {
				n, ok := parseBV(v[ln])
				if !ok || n > replayMaxLen {
					return "", false
				}
				var bs []byte
				for i := 0; i < int(n); i++ {
					c, ok := parseBV(v[qs[1+i]])
					if !ok {
						return "", false
					}
					bs = append(bs, byte(c))
				}
				return fmt.Sprintf("%s(%q)", types.TypeString(t, qualifier), string(bs)), true
			}}, bound
		}
	case *types.Slice:
		if eb, ok := u.Elem().Underlying().(*types.Basic); ok && eb.Kind() == types.Uint8 {
			h := x.heap(st, SBV8)
			ln, cp, base := sLen(term).S, sCap(term).S, sBase(term).S
			qs := []string{ln, cp, base}
			for i := 0; i < replayMaxLen; i++ {
				qs = append(qs, Select(Select(h, sBase(term)), App(SBV64, "bvadd", sOff(term), bv64(uint64(i)))).S)
			}
			bound := []string{fmt.Sprintf("(bvule %s %s)", cp, bv64(replayMaxLen).S)}
			return &matVal{queries: qs, build: func(v map[string]string) (string, bool) {
				n, ok1 := parseBV(v[ln])
				c, ok2 := parseBV(v[cp])
				if !ok1 || !ok2 || n > replayMaxLen || c > replayMaxLen || n > c {
					return "", false
				}
				if strings.TrimSpace(v[base]) == "0" {
					return fmt.Sprintf("%s(nil)", types.TypeString(t, qualifier)), true
				}
				var bs []string
				for i := 0; i < int(c); i++ {
					b, ok := parseBV(v[qs[3+i]])
					if !ok {
						return "", false
					}
					bs = append(bs, strconv.Itoa(int(b)))
				}
				// exact len and cap (caps matter: Go checks slice expressions against cap)
				return fmt.Sprintf("%s(append(make([]byte, 0, %d), []byte{%s}...)[:%d])", types.TypeString(t, qualifier), c, strings.Join(bs, ","), n), true
			}}, bound
		}
		// slice of other element types: at most replaySliceMax elements
		if depth > 2 {
			return nil, nil
		}
		h := x.heap(st, u.Elem())
		ln, base := sLen(term).S, sBase(term).S
		qs := []string{ln, base}
		bound := []string{fmt.Sprintf("(bvule %s %s)", ln, bv64(replaySliceMax).S)}
		var elems []*matVal
		for i := 0; i < replaySliceMax; i++ {
			et := Select(Select(h, sBase(term)), App(SBV64, "bvadd", sOff(term), bv64(uint64(i))))
			m, b := x.materialise(u.Elem(), et, st, depth+1)
			if m == nil {
				return nil, nil
			}
			elems = append(elems, m)
			qs = append(qs, m.queries...)
			bound = append(bound, b...)
		}
		return &matVal{queries: qs, build: func(v map[string]string) (string, bool) {
			n, ok := parseBV(v[ln])
			if !ok || n > replaySliceMax {
				return "", false
			}
			if strings.TrimSpace(v[base]) == "0" {
				return fmt.Sprintf("%s(nil)", types.TypeString(t, qualifier)), true
			}
			var parts []string
			for i := 0; i < int(n); i++ {
				e, ok := elems[i].build(v)
				if !ok {
					return "", false
				}
				parts = append(parts, e)
			}
			return fmt.Sprintf("%s{%s}", types.TypeString(t, qualifier), strings.Join(parts, ", ")), true
		}}, bound
	case *types.Struct:
		if depth > 3 {
			return nil, nil
		}
		type fld struct {
			name string
			m    *matVal
		}
		var flds []fld
		var qs, bound []string
		named, _ := t.(*types.Named)
		for i := 0; i < u.NumFields(); i++ {
			f := u.Field(i)
			if !f.Exported() && (named == nil || named.Obj().Pkg() != replayPkg) {
				continue // cannot be set from the test's package; left zero
			}
			switch f.Type().Underlying().(type) {
			case *types.Basic, *types.Slice, *types.Struct:
			default:
				continue
			}
			m, b := x.materialise(f.Type(), x.fieldGet(term, t, i), st, depth+1)
			if m == nil {
				continue // unsupported field types stay zero
			}
			flds = append(flds, fld{f.Name(), m})
			qs = append(qs, m.queries...)
			bound = append(bound, b...)
		}
		return &matVal{queries: qs, build: func(v map[string]string) (string, bool) {
			var parts []string
			for _, f := range flds {
				e, ok := f.m.build(v)
				if !ok {
					return "", false
				}
				parts = append(parts, f.name+": "+e)
			}
			return fmt.Sprintf("%s{%s}", types.TypeString(t, qualifier), strings.Join(parts, ", ")), true
		}}, bound
	case *types.Pointer:
		if depth > 0 {
			break
		}
		loc := x.locOfPtr(term, u.Elem())
		inner, bound := x.materialise(u.Elem(), x.load(st, loc), st, depth+1)
		if inner == nil {
			return nil, nil
		}
		return &matVal{queries: inner.queries, build: func(v map[string]string) (string, bool) {
			e, ok := inner.build(v)
			if !ok {
				return "", false
			}
			ts := types.TypeString(u.Elem(), qualifier)
			return fmt.Sprintf("func() *%s { v := %s; return &v }()", ts, e), true
		}}, bound
	}
	return nil, nil
}

var replayPkg *types.Package

func qualifier(p *types.Package) string {
	if replayPkg != nil && p == replayPkg {
		return ""
	}
	if replayImports != nil {
		replayImports[p.Path()] = p.Name()
	}
	return p.Name()
}

func parseBV(s string) (uint64, bool) {
	s = strings.TrimSpace(s)
	switch {
	case strings.HasPrefix(s, "#x"):
		n, err := strconv.ParseUint(s[2:], 16, 64)
		return n, err == nil
	case strings.HasPrefix(s, "#b"):
		n, err := strconv.ParseUint(s[2:], 2, 64)
		return n, err == nil
	case strings.HasPrefix(s, "(_ bv"):
		f := strings.Fields(strings.TrimPrefix(s, "(_ bv"))
		if len(f) > 0 {
			n, err := strconv.ParseUint(f[0], 10, 64)
			return n, err == nil
		}
	}
	return 0, false
}

// observation of a result value: a Go expression printing it, and the model's prediction
type obsVal struct {
	label   string
	goPrint string // Go statement printing "REPLAY label=value"
	queries []string
	predict func(v map[string]string) (string, bool)
}

func (x *Exec) observe(label, goName string, t types.Type, term Term, st *State) *obsVal {
	switch u := t.Underlying().(type) {
	case *types.Basic:
		switch {
		case u.Info()&types.IsBoolean != 0:
			return &obsVal{label: label, goPrint: fmt.Sprintf(`fmt.Printf("REPLAY %s=%%v\n", %s)`, label, goName), queries: []string{term.S},
				predict: func(v map[string]string) (string, bool) { return v[term.S], v[term.S] != "" }}
		case u.Info()&types.IsInteger != 0:
			return &obsVal{label: label, goPrint: fmt.Sprintf(`fmt.Printf("REPLAY %s=%%d\n", uint64(%s))`, label, goName), queries: []string{term.S},
				predict: func(v map[string]string) (string, bool) {
					n, ok := parseBV(v[term.S])
					if isSigned(t) && term.Sort.BVWidth() < 64 && ok {
						w := term.Sort.BVWidth()
						if n&(1<<uint(w-1)) != 0 {
							n = uint64(int64(n) - (1 << uint(w)))
						}
					}
					return strconv.FormatUint(n, 10), ok
				}}
		}
	case *types.Interface:
		return &obsVal{label: label, goPrint: fmt.Sprintf(`fmt.Printf("REPLAY %s=%%v\n", %s == nil)`, label, goName), queries: []string{Eq(term, Term{"inil", SIface}).S},
			predict: func(v map[string]string) (string, bool) {
				k := Eq(term, Term{"inil", SIface}).S
				return v[k], v[k] != ""
			}}
	case *types.Slice:
		if eb, ok := u.Elem().Underlying().(*types.Basic); ok && eb.Kind() == types.Uint8 {
			h := x.heap(st, SBV8)
			ln := sLen(term).S
			qs := []string{ln}
			for i := 0; i < replayMaxLen; i++ {
				qs = append(qs, Select(Select(h, sBase(term)), App(SBV64, "bvadd", sOff(term), bv64(uint64(i)))).S)
			}
			return &obsVal{label: label, goPrint: fmt.Sprintf(`fmt.Printf("REPLAY %s=%%d:%%x\n", len(%s), []byte(%s))`, label, goName, goName), queries: qs,
				predict: func(v map[string]string) (string, bool) {
					n, ok := parseBV(v[ln])
					if !ok || n > replayMaxLen {
						return "", false
					}
					var sb strings.Builder
					for i := 0; i < int(n); i++ {
						b, ok := parseBV(v[qs[1+i]])
						if !ok {
							return "", false
						}
						fmt.Fprintf(&sb, "%02x", b)
					}
					return fmt.Sprintf("%d:%s", n, sb.String()), true
				}}
		}
	}
	return nil
}

func tryReplay(w *World, o *Obligation, cfg RunConfig) (bool, string) {
	rs := o.Replay
	if rs == nil {
		return false, "replay: the failing obligation is at a cut point (loop invariant / call site) or has inputs outside the materialisable types; no input constructed\n"
	}
	x := rs.x
	fn := rs.fn
	var pkg *types.Package
	if fn.Pkg != nil {
		pkg = fn.Pkg.Pkg
	}
	if pkg == nil {
		return false, "replay: function has no package\n"
	}
	replayPkg = pkg
	replayImports = map[string]string{}
	var mats []*matVal
	var bounds, queries []string
	for i, p := range fn.Params {
		m, b := x.materialise(p.Type(), x.term(rs.params[i]), rs.entry, 0)
		if m == nil {
			return false, fmt.Sprintf("replay: parameter %s of type %s cannot be materialised\n", p.Name(), p.Type())
		}
		mats = append(mats, m)
		bounds = append(bounds, b...)
		queries = append(queries, m.queries...)
	}
	var obs []*obsVal
	observedHeaps := map[string]bool{}
	if o.Kind == "ensures" {
		sig := fn.Signature
		for i := 0; i < sig.Results().Len() && i < len(rs.results); i++ {
			ov := x.observe(fmt.Sprintf("r%d", i), fmt.Sprintf("r%d", i), sig.Results().At(i).Type(), x.term(rs.results[i]), rs.final)
			if ov != nil {
				obs = append(obs, ov)
				queries = append(queries, ov.queries...)
			}
		}
		// effects through pointer parameters
		for i, p := range fn.Params {
			if pt, ok := p.Type().Underlying().(*types.Pointer); ok {
				loc := x.locOfPtr(x.term(rs.params[i]), pt.Elem())
				ov := x.observe(fmt.Sprintf("p%d", i), fmt.Sprintf("(*a%d)", i), pt.Elem(), x.load(rs.final, loc), rs.final)
				if ov != nil {
					obs = append(obs, ov)
					queries = append(queries, ov.queries...)
					observedHeaps[x.heapName(pt.Elem())] = true
					if sl, ok := pt.Elem().Underlying().(*types.Slice); ok {
						observedHeaps[x.heapName(sl.Elem())] = true
					}
				}
			}
		}
		if len(obs) == 0 {
			return false, "replay: no observable result\n"
		}
	}
	// model with small sizes
	// when no solver produced a model (quantified context), a relaxed query
	// without the quantified assumptions yields candidates; only replay decides
	relaxed := o.Result.Verdict != "sat"
	q := o.Script.Query(o.Pos, Not(o.Goal), relaxed)
	if o.Extra != "" {
		q = strings.Replace(q, "(check-sat)", o.Extra+"\n(check-sat)", 1)
	}
	bq := q
	for _, b := range bounds {
		bq = strings.Replace(bq, "(check-sat)", "(assert "+b+")\n(check-sat)", 1)
	}
	file := filepath.Join(cfg.WorkDir, "replay_"+truncate(mangleIdent(o.Name), 60)+".smt2")
	os.WriteFile(file, []byte(bq), 0o644)
	var vals map[string]string
	var out string
	for _, s := range []string{"z3-new", "z3", "cvc5"} {
		vals, out = getModel(file, s, queries, 20*time.Second)
		if vals != nil {
			break
		}
	}
	if vals == nil {
		return false, "replay: no model with inputs of length <= " + strconv.Itoa(replayMaxLen) + " obtained: " + firstLine(out) + "\n"
	}
	var args []string
	var decls strings.Builder
	for i, m := range mats {
		e, ok := m.build(vals)
		if !ok {
			return false, fmt.Sprintf("replay: model value of parameter %d not usable\n", i)
		}
		fmt.Fprintf(&decls, "\ta%d := %s\n", i, e)
		args = append(args, fmt.Sprintf("a%d", i))
	}
	var want []string
	for _, ov := range obs {
		p, ok := ov.predict(vals)
		if !ok {
			return false, "replay: predicted output not readable from the model\n"
		}
		want = append(want, fmt.Sprintf("REPLAY %s=%s", ov.label, p))
	}
	// the call
	var call string
	nres := fn.Signature.Results().Len()
	var lhs []string
	for i := 0; i < nres; i++ {
		lhs = append(lhs, fmt.Sprintf("r%d", i))
	}
	callee := fn.Name()
	callArgs := args
	if fn.Signature.Recv() != nil {
		callee = "a0." + fn.Name()
		callArgs = args[1:]
	}
	if nres > 0 {
		call = fmt.Sprintf("%s := %s(%s)", strings.Join(lhs, ", "), callee, strings.Join(callArgs, ", "))
	} else {
		call = fmt.Sprintf("%s(%s)", callee, strings.Join(callArgs, ", "))
	}
	var prints strings.Builder
	for _, l := range lhs {
		fmt.Fprintf(&prints, "\t_ = %s\n", l)
	}
	for _, ov := range obs {
		prints.WriteString("\t" + ov.goPrint + "\n")
	}
	imports := `"fmt"; "testing"`
	for path := range replayImports {
		if path != "fmt" && path != "testing" {
			imports += fmt.Sprintf("; %q", path)
		}
	}
	src := fmt.Sprintf(`package %s

import (%s)

// generated by /verif: replay of a solver counterexample for obligation
// %s
func TestVerifReplay(t *testing.T) {
	defer func() {
		if r := recover(); r != nil {
			fmt.Printf("REPLAY panic=%%v\n", r)
		}
	}()
%s	%s
%s	fmt.Println("REPLAY done")
}
`, pkg.Name(), imports, o.Name, decls.String(), call, prints.String())
	got, runOut := runOverlayTest(w, pkg.Path(), src, "TestVerifReplay", cfg.WorkDir)
	var b strings.Builder
	fmt.Fprintf(&b, "replay test (injected into %s with go test -overlay):\n%s\n", pkg.Path(), src)
	fmt.Fprintf(&b, "model predicts:\n%s\nreal code printed:\n%s\n", strings.Join(want, "\n"), strings.Join(got, "\n"))
	confirmed := false
	switch o.Kind {
	case "ensures":
		confirmed = len(got) > 0 && got[len(got)-1] == "REPLAY done"
		// a postcondition over memory the function writes but the harness does not
		// observe cannot be confirmed by comparing the observed outputs
		if mods := x.funcMods(fn); confirmed {
			for h := range mods.heaps {
				if h == "heap_any" || strings.HasPrefix(h, "heap__") && strings.Contains(h, "interface") || observedHeaps[h] {
					continue
				}
				confirmed = false
				b.WriteString("not confirmable: the function writes " + h + ", which the replay harness does not observe\n")
				break
			}
			if mods.allHeaps {
				confirmed = false
			}
		}
		for _, wl := range want {
			if !contains(got, wl) {
				confirmed = false
			}
		}
		if confirmed {
			b.WriteString("CONFIRMED: the real function produces the output for which the solver refutes the postcondition\n")
		}
	case "no-panic", "in-len":
		for _, g := range got {
			if strings.HasPrefix(g, "REPLAY panic=") {
				confirmed = true
				b.WriteString("CONFIRMED: the real function panics on this input: " + g + "\n")
			}
		}
	}
	if !confirmed {
		b.WriteString("not confirmed on the real code\n" + truncate(runOut, 2000) + "\n")
	}
	return confirmed, b.String()
}

// runOverlayTest injects src as an extra _test.go file of the package and runs it.
func runOverlayTest(w *World, pkgPath, src, run, workDir string) ([]string, string) {
	rel := strings.TrimPrefix(strings.TrimPrefix(pkgPath, repoMod), "/")
	dir := filepath.Join(w.repo, rel)
	tmp := filepath.Join(workDir, "replay_src")
	os.MkdirAll(tmp, 0o755)
	testFile := filepath.Join(tmp, "zz_verif_replay_test.go")
	os.WriteFile(testFile, []byte(src), 0o644)
	ov := map[string]map[string]string{"Replace": {filepath.Join(dir, "zz_verif_replay_test.go"): testFile}}
	// packages whose own tests need a live PostgreSQL (TestMain): blank them out
	empty := filepath.Join(tmp, "empty_test.go")
	if ents, err := os.ReadDir(dir); err == nil {
		pkgName := ""
		for _, l := range strings.Split(src, "\n") {
			if strings.HasPrefix(l, "package ") {
				pkgName = strings.TrimSpace(strings.TrimPrefix(l, "package "))
				break
			}
		}
		os.WriteFile(empty, []byte("package "+pkgName+"\n"), 0o644)
		for _, e := range ents {
			if strings.HasSuffix(e.Name(), "_test.go") {
				ov["Replace"][filepath.Join(dir, e.Name())] = empty
			}
		}
	}
	ovFile := filepath.Join(tmp, "overlay.json")
	data, _ := json.Marshal(ov)
	os.WriteFile(ovFile, data, 0o644)
	cmd := exec.Command("go", "test", "-overlay", ovFile, "-vet=off", "-count=1", "-timeout", "60s", "-run", "^"+run+"$", "-v", "./"+rel)
	cmd.Dir = w.repo
	cmd.Env = append(os.Environ(), "GOFLAGS=-mod=mod", "GOPROXY=off", "GOSUMDB=off", "GOTOOLCHAIN=local")
	out, _ := cmd.CombinedOutput()
	var lines []string
	for _, l := range strings.Split(string(out), "\n") {
		if strings.HasPrefix(l, "REPLAY ") {
			lines = append(lines, strings.TrimSpace(l))
		}
	}
	return lines, string(out)
}
