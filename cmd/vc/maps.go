package main

import (
	"fmt"
	"go/types"

	"golang.org/x/tools/go/ssa"
)

// Maps are references (Int addresses) into two heaps per key/value sort:
// a domain heap (Array Int (Array K Bool)) and a value heap (Array Int (Array K V)).

func (x *Exec) mapDomName(mt *types.Map) string {
	return "mapdom_" + x.sortOf(mt.Key()).Mangle()
}

func (x *Exec) mapValName(mt *types.Map) string {
	return "mapval_" + x.sortOf(mt.Key()).Mangle() + "_" + x.sortOf(mt.Elem()).Mangle()
}

func (x *Exec) mapHeaps(st *State, mt *types.Map) (dom, val Term) {
	ks, vs := x.sortOf(mt.Key()), x.sortOf(mt.Elem())
	dn, vn := x.mapDomName(mt), x.mapValName(mt)
	ds, vss := ArraySort(SInt, ArraySort(ks, SBool)), ArraySort(SInt, ArraySort(ks, vs))
	get := func(name string, s Sort) Term {
		if h, ok := st.heaps[name]; ok {
			return h
		}
		init := Term{name + "_init", s}
		x.sc.Decl("heap:"+name, fmt.Sprintf("(declare-const %s %s)", init.S, s))
		x.heapSorts[name] = s
		return init
	}
	return get(dn, ds), get(vn, vss)
}

func (x *Exec) setMapHeaps(st *State, mt *types.Map, dom, val Term) {
	st.heaps[x.mapDomName(mt)] = x.sc.Define(x.mapDomName(mt), dom)
	st.heaps[x.mapValName(mt)] = x.sc.Define(x.mapValName(mt), val)
}

func (x *Exec) mapInit(st *State, mt *types.Map, a Term) {
	dom, val := x.mapHeaps(st, mt)
	ks := x.sortOf(mt.Key())
	empty := Term{fmt.Sprintf("((as const %s) false)", ArraySort(ks, SBool)), ArraySort(ks, SBool)}
	x.setMapHeaps(st, mt, Store(dom, a, empty), val)
}

func (x *Exec) mapKey(k Term, kt types.Type) Term { return k }

func (x *Exec) lookup(fr *Frame, st *State, i *ssa.Lookup) *Val {
	xv := x.val(fr, i.X)
	switch u := i.X.Type().Underlying().(type) {
	case *types.Map:
		m := x.term(xv)
		k := x.term(x.val(fr, i.Index))
		dom, val := x.mapHeaps(st, u)
		in := x.sc.Define("mapin", And(Not(Eq(m, IntConst(0))), Select(Select(dom, m), k)))
		v := x.sc.Define("mapget", Ite(in, Select(Select(val, m), k), x.zeroOf(u.Elem())))
		x.assume(st, Implies(in, x.typeInv(v, u.Elem(), st, 1)))
		if i.CommaOk {
			return &Val{Ty: i.Type(), Tuple: []*Val{{T: v, Ty: u.Elem()}, {T: in, Ty: types.Typ[types.Bool]}}}
		}
		return &Val{T: v, Ty: u.Elem()}
	case *types.Basic: // string index
		idx := x.toBV64(x.val(fr, i.Index), i.Index.Type())
		x.boundsCheck(st, idx, App(SBV64, "gs.len", x.term(xv)), i.Pos(), "index")
		return &Val{T: App(SBV8, "gs.at", x.term(xv), idx), Ty: i.Type()}
	}
	panic("lookup")
}

func (x *Exec) mapUpdate(fr *Frame, st *State, i *ssa.MapUpdate) {
	mt := i.Map.Type().Underlying().(*types.Map)
	m := x.term(x.val(fr, i.Map))
	k := x.term(x.val(fr, i.Key))
	v := x.term(x.val(fr, i.Value))
	x.check(st, "no-panic", x.oblName(fr, "nil-map", i.Pos()), Not(Eq(m, IntConst(0))), fnProps(fr), "assignment to entry in nil map", x.pos(i.Pos()))
	x.freshWrite(st, m, "map update")
	dom, val := x.mapHeaps(st, mt)
	x.setMapHeaps(st, mt, Store(dom, m, Store(Select(dom, m), k, TTrue)), Store(val, m, Store(Select(val, m), k, v)))
}

func (x *Exec) mapDelete(st *State, mt *types.Map, m, k Term) {
	x.freshWrite(st, m, "map delete")
	dom, val := x.mapHeaps(st, mt)
	x.setMapHeaps(st, mt, Ite(Eq(m, IntConst(0)), dom, Store(dom, m, Store(Select(dom, m), k, TFalse))), val)
}

func (x *Exec) mapClear(st *State, mt *types.Map, m Term) {
	dom, val := x.mapHeaps(st, mt)
	ks := x.sortOf(mt.Key())
	empty := Term{fmt.Sprintf("((as const %s) false)", ArraySort(ks, SBool)), ArraySort(ks, SBool)}
	x.setMapHeaps(st, mt, Store(dom, m, empty), val)
}

func (x *Exec) mapLen(st *State, mt *types.Map, m Term) Term {
	ks := x.sortOf(mt.Key())
	fn := "maplen_" + ks.Mangle()
	x.sc.Decl("fn:"+fn, fmt.Sprintf("(declare-fun %s (%s) (_ BitVec 64))\n(assert (forall ((d %s)) (! (and (bvsge (%s d) #x0000000000000000) (bvult (%s d) #x0000800000000000)) :pattern ((%s d)))))\n(assert (= (%s ((as const %s) false)) #x0000000000000000))",
		fn, ArraySort(ks, SBool), ArraySort(ks, SBool), fn, fn, fn, fn, ArraySort(ks, SBool)))
	dom, _ := x.mapHeaps(st, mt)
	return Ite(Eq(m, IntConst(0)), bv64(0), App(SBV64, fn, Select(dom, m)))
}

// mapNext: one step of `for k, v := range m`. The iterator cell holds the
// set of keys already visited; an iteration picks any unvisited key of the
// current domain.
func (x *Exec) mapNext(fr *Frame, st *State, it *Val, tup *types.Tuple) *Val {
	mt := it.Iter.mt
	m := it.Iter.m
	ks := x.sortOf(mt.Key())
	dom, val := x.mapHeaps(st, mt)
	visited, ok := st.cells[it.Loc.Cell]
	if !ok {
		visited = Term{fmt.Sprintf("((as const %s) false)", ArraySort(ks, SBool)), ArraySort(ks, SBool)}
	}
	k := x.sc.Fresh("mapkey", ks)
	okc := x.sc.Fresh("mapnext_ok", SBool)
	d := Select(dom, m)
	// ok ==> k in dom, not visited;  !ok ==> every key of dom is visited
	x.assume(st, Implies(okc, And(Not(Eq(m, IntConst(0))), Select(d, k), Not(Select(visited, k)))))
	x.assume(st, Implies(Not(okc), Or(Eq(m, IntConst(0)), T(SBool, "(forall ((q %s)) (! (=> (select %s q) (select %s q)) :pattern ((select %s q))))", ks, d.S, visited.S, d.S))))
	st.cells[it.Loc.Cell] = x.sc.Define("visited", Ite(okc, Store(visited, k, TTrue), visited))
	v := x.sc.Define("mapval", Select(Select(val, m), k))
	x.assume(st, Implies(okc, x.typeInv(v, mt.Elem(), st, 1)))
	x.assume(st, Implies(okc, x.typeInv(k, mt.Key(), st, 1)))
	return &Val{Ty: tup, Tuple: []*Val{
		{T: okc, Ty: tup.At(0).Type()},
		{T: k, Ty: tup.At(1).Type()},
		{T: v, Ty: tup.At(2).Type()},
	}}
}
