package main

import (
	"encoding/json"
	"flag"
	"fmt"
	"os"
	"path/filepath"
	"runtime"
	"sort"
	"strconv"
	"strings"
	"time"

	"golang.org/x/tools/go/ssa"
)

type propSummary struct {
	ID        string
	Obls      []*Obligation
	Funcs     []string
	Assump    map[string]bool
	Bounded   []boundedResult
	GenErrors []string
}

type boundedResult struct {
	Name       string `json:"name"`
	Bound      string `json:"bound"`
	Cases      int    `json:"cases"`
	Exhaustive bool   `json:"exhaustive"`
	Passed     bool   `json:"passed"`
	Detail     string `json:"detail,omitempty"`
}

func main() {
	if len(os.Args) < 2 {
		fmt.Fprintln(os.Stderr, "usage: vc check|list|dump ...")
		os.Exit(2)
	}
	switch os.Args[1] {
	case "check":
		os.Exit(cmdCheck(os.Args[2:]))
	case "dump":
		os.Exit(cmdDump(os.Args[2:]))
	default:
		fmt.Fprintln(os.Stderr, "unknown command")
		os.Exit(2)
	}
}

func hasProp(props []string, id string) bool {
	for _, p := range props {
		if p == id {
			return true
		}
	}
	return false
}

func cmdDump(args []string) int {
	fs := flag.NewFlagSet("dump", flag.ExitOnError)
	repo := fs.String("repo", "/repo", "repository")
	fnName := fs.String("func", "", "pkg-relative function, e.g. bint.Decode")
	fs.Parse(args)
	w, err := loadWorld(*repo)
	if err != nil {
		fmt.Fprintln(os.Stderr, err)
		return 2
	}
	for fn, c := range w.contracts {
		if relFuncName(fn) != *fnName {
			continue
		}
		x, err := w.verifyFunc(fn, c)
		if err != nil {
			fmt.Fprintln(os.Stderr, err)
		}
		for _, o := range x.obls {
			fmt.Printf("== %s [%s] %s\n", o.Name, o.Kind, o.Desc)
		}
		if len(x.obls) > 0 {
			o := x.obls[len(x.obls)-1]
			if o.Script != nil {
				fmt.Println(o.Script.Query(o.Pos, Not(o.Goal), false))
			}
		}
	}
	return 0
}

func cmdCheck(args []string) int {
	fs := flag.NewFlagSet("check", flag.ExitOnError)
	repo := fs.String("repo", "/repo", "repository under verification")
	prop := fs.String("prop", "", "property id (C01..C20)")
	tier := fs.String("tier", "quick", "quick|thorough")
	verif := fs.String("verif", "/verif", "verif directory")
	only := fs.String("only", "", "restrict to functions containing this substring (debugging)")
	fs.Parse(args)
	if t := os.Getenv("VERIF_TIER"); t != "" && *tier == "" {
		*tier = t
	}
	seed := 0
	if s := os.Getenv("VERIF_SEED"); s != "" {
		seed, _ = strconv.Atoi(s)
	}
	t0 := time.Now()
	w, err := loadWorld(*repo)
	if err != nil {
		// the tree does not load (compile error): report as failure of the check, not as a violation
		fmt.Fprintln(os.Stderr, "load:", err)
		return 2
	}
	w.loadSecs = time.Since(t0).Seconds()
	// each obligation races four solver processes: keep the machine below one process per core
	par := runtime.NumCPU() / 4
	if v := os.Getenv("VC_PARALLEL"); v != "" {
		fmt.Sscan(v, &par)
	}
	if par < 1 {
		par = 1
	}
	thoroughTier = *tier == "thorough"
	cfg := RunConfig{Tier: *tier, Timeout: 10 * time.Second, WorkDir: filepath.Join(*verif, ".work", *prop), Parallel: par}
	if *tier == "thorough" {
		cfg.Timeout = 60 * time.Second
	}
	os.RemoveAll(cfg.WorkDir)
	os.MkdirAll(cfg.WorkDir, 0o755)

	sum := &propSummary{ID: *prop, Assump: map[string]bool{}}
	// E1: functions under contract that carry this property
	type fnc struct {
		fn *ssa.Function
		c  *FuncContract
	}
	var todo []fnc
	for fn, c := range w.contracts {
		if contractMentions(c, *prop) && (*only == "" || strings.Contains(relFuncName(fn), *only)) {
			todo = append(todo, fnc{fn, c})
		}
	}
	sort.Slice(todo, func(i, j int) bool { return relFuncName(todo[i].fn) < relFuncName(todo[j].fn) })
	for _, t := range todo {
		if t.c.Opts["trusted"] == "true" {
			sum.Assump["TRUSTED contract (not verified, used at call sites): "+relFuncName(t.fn)] = true
			continue
		}
		x, err := w.verifyFunc(t.fn, t.c)
		name := relFuncName(t.fn)
		sum.Funcs = append(sum.Funcs, name)
		if err != nil {
			sum.GenErrors = append(sum.GenErrors, err.Error())
			sum.Obls = append(sum.Obls, &Obligation{Name: name + ":vcgen", Kind: "unsupported", Func: name, Props: []string{*prop},
				Desc: err.Error(), Status: "failed"})
			continue
		}
		distinct := x.strDistinctDecl()
		if len(x.errSentinels) > 1 {
			distinct += "\n(assert (distinct " + strings.Join(x.errSentinels, " ") + "))"
		}
		for _, o := range x.obls {
			if len(o.Props) > 0 && !hasProp(o.Props, *prop) {
				continue
			}
			o.Extra = distinct
			sum.Obls = append(sum.Obls, o)
		}
		for a := range x.assumptions {
			sum.Assump[a] = true
		}
	}
	// lemmas
	lemmaObls, lemErrs := w.lemmaObligations(*prop)
	sum.Obls = append(sum.Obls, lemmaObls...)
	sum.GenErrors = append(sum.GenErrors, lemErrs...)
	// E2 flow clauses and bounded stand-ins registered for this property
	for _, fc := range flowChecks[*prop] {
		sum.Obls = append(sum.Obls, fc(w)...)
	}
	sum.Obls = append(sum.Obls, flowOrderClauses(w, *prop)...)
	kf := loadFindings(filepath.Join(*verif, "KNOWN_FINDINGS.txt"))
	for _, o := range sum.Obls {
		o.NoRetry = kf.match(sum.ID, o.Name) != nil
	}
	solveAll(sum.Obls, cfg)
	for _, bc := range boundedChecks[*prop] {
		sum.Bounded = append(sum.Bounded, bc(w, *tier, seed, *verif)...)
	}
	return report(w, sum, cfg, *verif, seed, time.Since(t0))
}

func contractMentions(c *FuncContract, prop string) bool {
	if hasProp(c.Props, prop) {
		return true
	}
	for _, cl := range c.Clauses {
		if hasProp(cl.Props, prop) {
			return true
		}
	}
	return false
}

var flowChecks = map[string][]func(w *World) []*Obligation{}
var boundedChecks = map[string][]func(w *World, tier string, seed int, verif string) []boundedResult{}

// ---------------------------------------------------------------------------
// reporting

type evObl struct {
	Name    string  `json:"name"`
	Kind    string  `json:"kind"`
	Func    string  `json:"func"`
	Status  string  `json:"status"`
	Backend string  `json:"backend,omitempty"`
	Secs    float64 `json:"solver_s"`
	Text    string  `json:"clause,omitempty"`
}

func report(w *World, sum *propSummary, cfg RunConfig, verif string, seed int, wall time.Duration) int {
	findings := loadFindings(filepath.Join(verif, "KNOWN_FINDINGS.txt"))
	var (
		nObl, nDis, nCover, nCoverOK int
		evs                          []evObl
		violations                   []*Obligation
		known                        []string
		solverSecs                   float64
		backends                     = map[string]int{}
	)
	for _, o := range sum.Obls {
		e := evObl{Name: o.Name, Kind: o.Kind, Func: o.Func, Status: o.Status, Backend: o.Backend, Secs: round3(o.Result.Secs), Text: o.Desc}
		solverSecs += o.Result.Secs
		if o.Cover {
			nCover++
			if o.Status == "discharged" {
				nCoverOK++
			}
			if o.Status == "failed" {
				violations = append(violations, o)
			}
			evs = append(evs, e)
			continue
		}
		nObl++
		switch o.Status {
		case "discharged":
			nDis++
			backends[o.Backend]++
		default:
			if f := findings.match(sum.ID, o.Name); f != nil {
				e.Status = "known-finding"
				nObl-- // reported separately: not part of what this run claims to have proved
				known = append(known, fmt.Sprintf("KNOWN-FINDING: property=%s obligation=%s :: %s", sum.ID, o.Name, f.what))
			} else {
				violations = append(violations, o)
			}
		}
		evs = append(evs, e)
	}
	bOK := true
	for _, b := range sum.Bounded {
		if !b.Passed {
			bOK = false
			if f := findings.match(sum.ID, "bounded:"+b.Name); f != nil {
				known = append(known, fmt.Sprintf("KNOWN-FINDING: property=%s obligation=bounded:%s :: %s", sum.ID, b.Name, f.what))
				bOK = true
			}
		}
	}
	for _, k := range known {
		fmt.Println(k)
	}
	// replay files for violations
	exit := 0
	replayDir := filepath.Join(verif, "replays", sum.ID)
	os.RemoveAll(replayDir)
	if len(violations) > 0 || !bOK {
		os.MkdirAll(replayDir, 0o755)
	}
	for _, o := range violations {
		exit = 1
		path, confirmed := writeReplay(w, o, replayDir, cfg)
		suffix := ""
		if !confirmed {
			suffix = " no-failing-input-found"
		}
		fmt.Printf("VIOLATION property=%s replay=%s obligation=%s%s\n", sum.ID, path, o.Name, suffix)
	}
	nBoundedViol := 0
	for _, b := range sum.Bounded {
		if !b.Passed && findings.match(sum.ID, "bounded:"+b.Name) == nil {
			exit = 1
			nBoundedViol++
			path := filepath.Join(replayDir, "bounded_"+mangleIdent(b.Name)+".txt")
			os.WriteFile(path, []byte(b.Detail), 0o644)
			fmt.Printf("VIOLATION property=%s replay=%s obligation=bounded:%s\n", sum.ID, path, b.Name)
		}
	}
	if nObl == 0 && len(sum.Bounded) == 0 {
		fmt.Printf("VIOLATION property=%s replay=%s obligation=none-generated no-failing-input-found\n", sum.ID, filepath.Join(replayDir, "none"))
		exit = 1
	}
	// evidence
	assumptions := []string{}
	for a := range sum.Assump {
		assumptions = append(assumptions, a)
	}
	sort.Strings(assumptions)
	var samples []any
	for i, e := range evs {
		if i < 6 {
			samples = append(samples, e)
		}
	}
	level := "proof"
	if lv, ok := propLevels[sum.ID]; ok {
		level = lv
	}
	cov := map[string]any{
		"obligations":              nObl,
		"discharged":               nDis,
		"checker_cmd":              fmt.Sprintf("/verif/run.sh %s %s  (vc check: go/ssa -> SMT-LIB, solvers raced: z3-new 5.1.0, z3 4.8.12, cvc5 1.0.3; flow = modular dataflow over SSA)", sum.ID, cfg.Tier),
		"trusted_base":             trustedBase(assumptions),
		"functions_under_contract": sum.Funcs,
		"by_backend":               backends,
		"solver_s":                 round3(solverSecs),
		"cover_checks":             nCover,
		"cover_ok":                 nCoverOK,
		"obligation_list":          evs,
		"samples":                  samples,
		"bounded":                  sum.Bounded,
		"known_findings_hit":       known,
		"vcgen_errors":             sum.GenErrors,
		"explanation":              propExplain[sum.ID],
		"load_s":                   round3(w.loadSecs),
	}
	ev := map[string]any{
		"property_id": sum.ID,
		"tier":        cfg.Tier,
		"seed":        seed,
		"level":       level,
		"coverage":    cov,
		"assumptions": assumptions,
		"wall_s":      round3(wall.Seconds()),
		"violations":  len(violations) + nBoundedViol,
	}
	os.MkdirAll(filepath.Join(verif, "evidence"), 0o755)
	data, _ := json.MarshalIndent(ev, "", " ")
	os.WriteFile(filepath.Join(verif, "evidence", sum.ID+".json"), data, 0o644)
	fmt.Printf("property=%s tier=%s obligations=%d discharged=%d cover=%d/%d bounded=%d known=%d violations=%d wall=%.1fs\n",
		sum.ID, cfg.Tier, nObl, nDis, nCoverOK, nCover, len(sum.Bounded), len(known), len(violations)+nBoundedViol, wall.Seconds())
	return exit
}

var propLevels = map[string]string{"C18": "other", "C09": "other", "C14": "other", "C15": "other"}
var propExplain = map[string]string{
	"C18": "Ownership contracts (guarded fields, held-at-entry locks, goroutine-closure clauses) written in /repo/<pkg>/verif_contracts.go are discharged by a must-hold lockset dataflow over go/ssa for every function of every repository package, plus one SMT-discharged aliasing postcondition (NumHash.get returns a copy). This decides a lock discipline for the named fields on every control-flow path; it does not explore schedules and knows no happens-before edges other than mutexes. obligations/discharged count the ownership obligations (back end 'flow') and the SMT obligations together; obligations listed in KNOWN_FINDINGS.txt are reported as KNOWN-FINDING and excluded from both counts.",
	"C20": "Manager.Run ordering facts are control-flow obligations over go/ssa (back end 'flow'); AllIntegrations' merge is an SMT-discharged contract. Goroutine timing is not explored.",
	"C14": "Mixed level: glf.any, glf.difference and lwc.get are SMT-discharged contracts on the real code (obligations/discharged count only these); the fetch plan itself (glf.New + Client.Get) is decided by the bounded all-pairs stand-ins listed under 'bounded' (labelled bounded, never counted as proved).",
	"C09": "Mixed level: hasStatic and sizeof are SMT-discharged against the ABI specification for every type tree (obligations/discharged count only these); the decoding itself (Event.ABIType + Result.Scan) is decided by the bounded stand-in listed under 'bounded' (labelled bounded, never counted as proved). Memory safety of scan for arbitrary input is C10 (proved).",
	"C15": "Mixed level: wstrings.Safe is an SMT-discharged contract and the rejection path of web.SaveIntegration is a control-flow obligation (obligations/discharged count these); that every configuration string reaching SQL text has passed the identifier check is decided by the bounded reflection-driven stand-in listed under 'bounded' (labelled bounded, never counted as proved).",
}

func round3(f float64) float64 { return float64(int(f*1000+0.5)) / 1000 }

func trustedBase(assumptions []string) []string {
	base := []string{
		"VC generator /verif/cmd/vc (go/ssa -> SMT-LIB), contract parser, SMT solvers z3/z3-new/cvc5",
		"go/ssa (x/tools v0.29.0) lowering of the source; Go runtime slice/string representation invariants",
		"machine integers are exact 64/32/8-bit bit-vectors; termination only where a decreases clause is stated",
	}
	return append(base, assumptions...)
}

// ---------------------------------------------------------------------------
// known findings

type finding struct {
	prop, obl, what string
}

type findingSet struct{ items []finding }

func loadFindings(path string) *findingSet {
	fs := &findingSet{}
	data, err := os.ReadFile(path)
	if err != nil {
		return fs
	}
	for _, line := range strings.Split(string(data), "\n") {
		line = strings.TrimSpace(line)
		if !strings.HasPrefix(line, "finding:") {
			continue
		}
		rest := strings.TrimSpace(line[len("finding:"):])
		head, what, _ := strings.Cut(rest, "::")
		f := finding{what: strings.TrimSpace(what)}
		for _, kv := range strings.Fields(head) {
			if k, v, ok := strings.Cut(kv, "="); ok {
				switch k {
				case "property":
					f.prop = v
				case "obligation":
					f.obl = v
				}
			}
		}
		// obligation names may contain spaces: take everything after "obligation=" up to " input=" or end
		if i := strings.Index(head, "obligation="); i >= 0 {
			o := head[i+len("obligation="):]
			if j := strings.Index(o, " input="); j >= 0 {
				o = o[:j]
			}
			f.obl = strings.TrimSpace(o)
		}
		fs.items = append(fs.items, f)
	}
	return fs
}

func (fs *findingSet) match(prop, obl string) *finding {
	for i := range fs.items {
		if fs.items[i].prop == prop && (fs.items[i].obl == obl || globMatch(fs.items[i].obl, obl)) {
			return &fs.items[i]
		}
	}
	return nil
}

// writeReplay records a failed obligation; returns the path and whether a
// failing input was confirmed on the real code.
func writeReplay(w *World, o *Obligation, dir string, cfg RunConfig) (string, bool) {
	path := filepath.Join(dir, truncate(mangleIdent(o.Name), 100)+".txt")
	var b strings.Builder
	fmt.Fprintf(&b, "obligation: %s\nkind: %s\nfunction: %s\nclause: %s\nwhere: %s\nstatus: %s\nsolver: %s verdict=%s (%.2fs)\n",
		o.Name, o.Kind, o.Func, o.Desc, o.Where, o.Status, o.Result.Solver, o.Result.Verdict, o.Result.Secs)
	fmt.Fprintf(&b, "solver output:\n%s\n", truncate(o.Result.Output, 4000))
	confirmed := false
	if o.Script != nil && o.Kind != "unsupported" {
		ok, text := tryReplay(w, o, cfg)
		confirmed = ok
		b.WriteString(text)
	}
	os.WriteFile(path, []byte(b.String()), 0o644)
	return path, confirmed
}

// globMatch: "<stmt>" in a finding's obligation name stands for the
// source-line part of the name (a finding is identified by function and
// clause label; reformatting the statement must not turn it into an alarm).
func globMatch(pat, s string) bool {
	const hole = "<stmt>"
	i := strings.Index(pat, hole)
	if i < 0 {
		return false
	}
	pre, post := pat[:i], pat[i+len(hole):]
	return len(s) >= len(pre)+len(post) && strings.HasPrefix(s, pre) && strings.HasSuffix(s, post)
}
