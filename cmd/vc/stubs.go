package main

func registerDBModels() {}

func (x *Exec) initGhost(st *State) {}

func (w *World) lemmaObligations(prop string) ([]*Obligation, []string) { return nil, nil }

func tryReplay(w *World, o *Obligation, cfg RunConfig) (bool, string) { return false, "" }
