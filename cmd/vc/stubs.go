package main
