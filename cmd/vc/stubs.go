package main




