package main

func registerDBModels() {}

func (x *Exec) initGhost(st *State) {}


