package main

// Assumed contracts of library functions (trusted base, listed in every evidence file).

import (
	"fmt"
	"go/ast"
	"go/constant"
	"go/token"
	"go/types"
	"strings"

	"golang.org/x/tools/go/ssa"
)

type libModel func(x *Exec, cs *callSite) *Val

var libModels map[string]libModel
var ifaceModels map[string]libModel
var libMods map[string]func(x *Exec, m *modSet, callee *ssa.Function)
var ifaceMods map[string]func(x *Exec, m *modSet)
var contractBuiltins map[string]func(x *Exec, env *CEnv, n *CCall) (*CV, error)

func init() {
	libModels = map[string]libModel{
		"bytes.Equal":                              modelBytesEqual,
		"bytes.Contains":                           modelUninterpBool("bytes.contains"),
		"errors.New":                               modelErrorsNew,
		"fmt.Errorf":                               modelErrorf,
		"errors.Is":                                modelErrorsIs,
		"encoding/hex.Decode":                      modelHexDecode,
		"strings.HasPrefix":                        modelHasPrefix,
		"strings.HasSuffix":                        modelHasSuffix,
		"sync/atomic.AddUint64":                    modelAtomicAdd,
		"sync/atomic.AddInt64":                     modelAtomicAdd,
		"(*sync.Mutex).Lock":                       modelNop,
		"(*sync.Mutex).Unlock":                     modelNop,
		"(*sync.Once).Do":                          modelOnceDo,
		"unicode.IsLetter":                         modelUninterpRune("unicode.IsLetter"),
		"unicode.IsDigit":                          modelUninterpRune("unicode.IsDigit"),
		"(*golang.org/x/sync/errgroup.Group).Go":   modelEgGo,
		"(*golang.org/x/sync/errgroup.Group).Wait": modelEgWait,
	}
	ifaceModels = map[string]libModel{}
	libMods = map[string]func(x *Exec, m *modSet, callee *ssa.Function){
		"encoding/hex.Decode":   func(x *Exec, m *modSet, _ *ssa.Function) { m.heaps[x.heapName(SBV8)] = true },
		"sync/atomic.AddUint64": func(x *Exec, m *modSet, _ *ssa.Function) { m.heaps[x.heapName(types.Typ[types.Uint64])] = true },
		"sync/atomic.AddInt64":  func(x *Exec, m *modSet, _ *ssa.Function) { m.heaps[x.heapName(types.Typ[types.Int64])] = true },
		"(*golang.org/x/sync/errgroup.Group).Go": func(x *Exec, m *modSet, _ *ssa.Function) {
			m.ghost["eg_err"] = true
		},
		"(*sync.Once).Do": func(x *Exec, m *modSet, _ *ssa.Function) {},
	}
	ifaceMods = map[string]func(x *Exec, m *modSet){}
	contractBuiltins = map[string]func(x *Exec, env *CEnv, n *CCall) (*CV, error){}
	registerDBModels()
}

func modelNop(x *Exec, cs *callSite) *Val { return x.freshResult(cs.st, "nop", cs.res) }

func modelBytesEqual(x *Exec, cs *callSite) *Val {
	x.assumeNote("bytes.Equal(a,b) == (len(a)==len(b) && forall i. a[i]==b[i])")
	t := x.bytesEq(cs.st, x.term(cs.args[0]), x.term(cs.args[1]))
	return &Val{T: x.sc.Define("beq", t), Ty: types.Typ[types.Bool]}
}

func modelUninterpBool(name string) libModel {
	return func(x *Exec, cs *callSite) *Val {
		x.assumeNote(name + " is an uninterpreted function of the byte contents of its arguments")
		x.sc.Decl("fn:"+name, fmt.Sprintf("(declare-fun %s ((Array Int (Array (_ BitVec 64) (_ BitVec 8))) Slice Slice) Bool)", name))
		return &Val{T: App(SBool, name, x.heap(cs.st, SBV8), x.term(cs.args[0]), x.term(cs.args[1])), Ty: types.Typ[types.Bool]}
	}
}

func modelUninterpRune(name string) libModel {
	return func(x *Exec, cs *callSite) *Val {
		x.assumeNote(name + " is an uninterpreted predicate on runes")
		x.sc.Decl("fn:"+name, fmt.Sprintf("(declare-fun %s ((_ BitVec 32)) Bool)", name))
		return &Val{T: App(SBool, name, x.term(cs.args[0])), Ty: types.Typ[types.Bool]}
	}
}

func (x *Exec) freshError(st *State, what string) Term {
	e := x.sc.Fresh("err_"+what, SIface)
	x.assume(st, Not(Eq(e, Term{"inil", SIface})))
	// a freshly created error is none of the sentinel errors
	for _, s := range x.errSentinels {
		x.assume(st, Not(Eq(e, Term{s, SIface})))
	}
	return e
}

func modelErrorsNew(x *Exec, cs *callSite) *Val {
	e := x.freshError(cs.st, "new")
	x.assume(cs.st, T(SBool, "(forall ((t Iface)) (! (= (wraps %s t) false) :pattern ((wraps %s t))))", e.S, e.S))
	return &Val{T: e, Ty: errorType}
}

// fmt.Errorf: non-nil error; with %w it wraps the corresponding argument.
func modelErrorf(x *Exec, cs *callSite) *Val {
	st := cs.st
	e := x.freshError(st, "errorf")
	format := ""
	if c, ok := cs.cc.Args[0].(*ssa.Const); ok && c.Value != nil {
		format = constant.StringVal(c.Value)
	}
	widx := -1
	if format != "" {
		n := 0
		for i := 0; i < len(format); i++ {
			if format[i] != '%' {
				continue
			}
			i++
			for i < len(format) && strings.ContainsRune("+-# 0123456789.*", rune(format[i])) {
				i++
			}
			if i >= len(format) {
				break
			}
			if format[i] == '%' {
				continue
			}
			if format[i] == 'w' {
				widx = n
			}
			n++
		}
	}
	if widx >= 0 && len(cs.args) > 1 {
		va := x.term(cs.args[1])
		h := x.heap(st, SIface)
		w := Select(Select(h, sBase(va)), App(SBV64, "bvadd", sOff(va), bv64(uint64(widx))))
		w = x.sc.Define("wrapped", w)
		x.assume(st, T(SBool, "(forall ((t Iface)) (! (= (wraps %s t) (or (= %s t) (wraps %s t))) :pattern ((wraps %s t))))", e.S, w.S, w.S, e.S))
	} else {
		x.assume(st, T(SBool, "(forall ((t Iface)) (! (= (wraps %s t) false) :pattern ((wraps %s t))))", e.S, e.S))
	}
	x.assumeNote("fmt.Errorf returns a fresh non-nil error that wraps exactly its %w argument")
	return &Val{T: e, Ty: errorType}
}

func modelErrorsIs(x *Exec, cs *callSite) *Val {
	a, b := x.term(cs.args[0]), x.term(cs.args[1])
	x.assumeNote("errors.Is(e,t) == (e == t || wraps(e,t)) for non-nil e")
	t := And(Not(Eq(a, Term{"inil", SIface})), Or(Eq(a, b), App(SBool, "wraps", a, b)))
	return &Val{T: x.sc.Define("errors_is", t), Ty: types.Typ[types.Bool]}
}

// hex.Decode(dst, src): err == nil <==> len(src) even && all hex; on success
// dst[k] = nib(src[2k])<<4 | nib(src[2k+1]) for k < len(src)/2; writes
// nothing else. Panics if dst is too short (obligation).
func modelHexDecode(x *Exec, cs *callSite) *Val {
	st := cs.st
	dst, src := x.term(cs.args[0]), x.term(cs.args[1])
	x.sc.Decl("hexfns", `(define-fun hex.is ((c (_ BitVec 8))) Bool (or (and (bvuge c #x30) (bvule c #x39)) (and (bvuge c #x61) (bvule c #x66)) (and (bvuge c #x41) (bvule c #x46))))
(define-fun hex.nib ((c (_ BitVec 8))) (_ BitVec 8) (ite (bvule c #x39) (bvsub c #x30) (ite (bvule c #x46) (bvsub c #x37) (bvsub c #x57))))`)
	x.assumeNote("encoding/hex.Decode: nil error iff even length and all hex digits; decodes pairs exactly; writes only dst[0:len(src)/2]")
	h := x.heap(st, SBV8)
	n := x.sc.Define("hex_n", App(SBV64, "bvlshr", sLen(src), bv64(1)))
	x.check(st, "no-panic", x.oblName(cs.fr, "hex.Decode-dst", cs.pos), App(SBool, "bvule", n, sLen(dst)), fnProps(cs.fr), "hex.Decode: destination too short", x.pos(cs.pos))
	sa := x.sc.Define("hex_src", Select(h, sBase(src)))
	srcAt := func(k string) string {
		return fmt.Sprintf("(select %s (bvadd %s %s))", sa.S, sOff(src).S, k)
	}
	allhex := T(SBool, "(forall ((a (_ BitVec 64))) (! (=> (bvult (bvsub a %s) %s) (hex.is (select %s a))) :pattern ((select %s a))))", sOff(src).S, sLen(src).S, sa.S, sa.S)
	even := Eq(T(SBV64, "(bvand %s #x0000000000000001)", sLen(src).S), bv64(0))
	okc := x.sc.Define("hex_ok", And(even, allhex))
	e := x.sc.Fresh("hex_err", SIface)
	x.assume(st, Eq(Eq(e, Term{"inil", SIface}), okc))
	oa := x.sc.Define("hex_old", Select(h, sBase(dst)))
	na := x.sc.Fresh("hex_arr", ArraySort(SBV64, SBV8))
	// on success the first n bytes are the decoded pairs; on failure an unspecified prefix is written
	val := fmt.Sprintf("(bvor (bvshl (hex.nib %s) #x04) (hex.nib %s))", srcAt("(bvshl (bvsub k "+sOff(dst).S+") #x0000000000000001)"), srcAt("(bvadd (bvshl (bvsub k "+sOff(dst).S+") #x0000000000000001) #x0000000000000001)"))
	x.assume(st, T(SBool, "(forall ((k (_ BitVec 64))) (! (and (=> (not (bvult (bvsub k %s) %s)) (= (select %s k) (select %s k))) (=> (and %s (bvult (bvsub k %s) %s)) (= (select %s k) %s))) :pattern ((select %s k))))",
		sOff(dst).S, n.S, na.S, oa.S, okc.S, sOff(dst).S, n.S, na.S, val, na.S))
	x.setHeap(st, SBV8, Store(h, sBase(dst), na))
	cnt := x.sc.Fresh("hex_cnt", SBV64)
	x.assume(st, Implies(okc, Eq(cnt, n)))
	return &Val{Ty: cs.res, Tuple: []*Val{{T: cnt, Ty: types.Typ[types.Int]}, {T: e, Ty: errorType}}}
}

func constStr(v ssa.Value) (string, bool) {
	if c, ok := v.(*ssa.Const); ok && c.Value != nil && c.Value.Kind() == constant.String {
		return constant.StringVal(c.Value), true
	}
	return "", false
}

func (x *Exec) hasPrefixTerm(s Term, lit string) Term {
	cs := []Term{App(SBool, "bvuge", App(SBV64, "gs.len", s), bv64(uint64(len(lit))))}
	for i := 0; i < len(lit); i++ {
		cs = append(cs, Eq(App(SBV8, "gs.at", s, bv64(uint64(i))), BVConst(uint64(lit[i]), 8)))
	}
	return And(cs...)
}

func (x *Exec) hasSuffixTerm(s Term, lit string) Term {
	n := App(SBV64, "gs.len", s)
	cs := []Term{App(SBool, "bvuge", n, bv64(uint64(len(lit))))}
	for i := 0; i < len(lit); i++ {
		idx := App(SBV64, "bvsub", n, bv64(uint64(len(lit)-i)))
		cs = append(cs, Eq(App(SBV8, "gs.at", s, idx), BVConst(uint64(lit[i]), 8)))
	}
	return And(cs...)
}

func modelHasPrefix(x *Exec, cs *callSite) *Val {
	if lit, ok := constStr(cs.cc.Args[1]); ok {
		return &Val{T: x.sc.Define("hasprefix", x.hasPrefixTerm(x.term(cs.args[0]), lit)), Ty: types.Typ[types.Bool]}
	}
	x.sc.Decl("fn:gs.hasprefix", "(declare-fun gs.hasprefix (Str Str) Bool)")
	return &Val{T: App(SBool, "gs.hasprefix", x.term(cs.args[0]), x.term(cs.args[1])), Ty: types.Typ[types.Bool]}
}

func modelHasSuffix(x *Exec, cs *callSite) *Val {
	if lit, ok := constStr(cs.cc.Args[1]); ok {
		return &Val{T: x.sc.Define("hassuffix", x.hasSuffixTerm(x.term(cs.args[0]), lit)), Ty: types.Typ[types.Bool]}
	}
	x.sc.Decl("fn:gs.hassuffix", "(declare-fun gs.hassuffix (Str Str) Bool)")
	return &Val{T: App(SBool, "gs.hassuffix", x.term(cs.args[0]), x.term(cs.args[1])), Ty: types.Typ[types.Bool]}
}

func modelAtomicAdd(x *Exec, cs *callSite) *Val {
	st := cs.st
	pt := cs.cc.Args[0].Type().Underlying().(*types.Pointer)
	loc := x.derefLoc(st, cs.args[0], pt.Elem(), cs.pos, "atomic")
	nv := x.sc.Define("atomic", App(SBV64, "bvadd", x.load(st, loc), x.term(cs.args[1])))
	x.store(st, loc, nv)
	return &Val{T: nv, Ty: pt.Elem()}
}

func modelOnceDo(x *Exec, cs *callSite) *Val {
	// the function may or may not run (now or earlier), and what it starts may run concurrently:
	// everything it can modify is havocked
	x.assumeNote("sync.Once.Do(f) summarised as havoc of everything f (and the goroutines it starts) may modify")
	f := cs.args[1]
	var fn *ssa.Function
	switch {
	case f.Clo != nil:
		fn = f.Clo.Fn
	case f.Fn != nil:
		fn = f.Fn
	}
	if fn == nil {
		x.havocAll(cs.st, "once")
		return &Val{}
	}
	x.havocMods(cs.fr, cs.st, x.funcMods(fn), "once")
	return &Val{}
}

// errgroup: Go(f) runs f at the launch point (sequentialisation, DESIGN §2.3);
// the first non-nil error is remembered per group object; Wait returns it.
func egKey(x *Exec, cs *callSite) Term {
	g := cs.args[0]
	if g.Loc != nil && g.Loc.Kind == LElem {
		return g.Loc.Base
	}
	return App(SInt, "pbase", x.term(g))
}

func egErrs(x *Exec, st *State) Term {
	if g, ok := st.ghost["eg_err"]; ok {
		return g
	}
	return Term{"((as const (Array Int Iface)) inil)", ArraySort(SInt, SIface)}
}

func modelEgGo(x *Exec, cs *callSite) *Val {
	st := cs.st
	x.assumeNote("errgroup.Group.Go(f) executes f at the launch point (sequentialisation of goroutines; not a proof about schedules)")
	f := cs.args[1]
	var r *Val
	sub := &callSite{fr: cs.fr, st: st, cc: cs.cc, pos: cs.pos, res: errorType}
	switch {
	case f.Clo != nil:
		sub.args = nil
		r = x.inlineClosure(sub, f.Clo)
	case f.Fn != nil:
		r = x.inlineClosure(sub, &Closure{Fn: f.Fn})
	default:
		x.unsupported("errgroup.Go with dynamic function")
		return &Val{}
	}
	k := egKey(x, cs)
	errs := egErrs(x, st)
	cur := Select(errs, k)
	st.ghost["eg_err"] = x.sc.Define("eg_err", Store(errs, k, Ite(Eq(cur, Term{"inil", SIface}), x.term(r), cur)))
	return &Val{}
}

func (x *Exec) inlineClosure(cs *callSite, c *Closure) *Val {
	c2 := *cs
	c2.res = resultType(c.Fn.Signature)
	if ct := x.w.contractOf(c.Fn); ct != nil {
		// a function literal under its own contract (verified separately)
		c2.bindings = c.Bindings
		return x.applyContract(&c2, c.Fn, ct)
	}
	if x.inlinable(c.Fn) {
		return x.inline(&c2, c.Fn, c.Bindings)
	}
	return x.unknownCall(&c2, c.Fn.String())
}

func modelEgWait(x *Exec, cs *callSite) *Val {
	k := egKey(x, cs)
	return &Val{T: x.sc.Define("eg_wait", Select(egErrs(x, cs.st), k)), Ty: errorType}
}

// wctx: typed accessors over context values. Getters are deterministic
// functions of the context; WithX(ctx, v) yields a context whose X is v and
// whose other values are those of ctx (assumed contract of context.WithValue
// with distinct keys, which wctx/ctx.go uses).
var wctxGetters = map[string]Sort{"ChainID": SBV64, "IGName": SStr, "SrcName": SStr, "Version": SStr, "SrcHost": SStr}

func (x *Exec) wctxDecl() {
	var b strings.Builder
	for _, g := range []string{"ChainID", "IGName", "SrcHost", "SrcName", "Version"} {
		fmt.Fprintf(&b, "(declare-fun wctx_%s (Iface) %s)\n", g, wctxGetters[g])
	}
	x.sc.Decl("wctx", b.String())
}

func (x *Exec) wctxModel(cs *callSite, name string) *Val {
	x.wctxDecl()
	x.assumeNote("wctx accessors: getters are functions of the context; WithX sets X and preserves the other values (context.WithValue with distinct keys)")
	st := cs.st
	if srt, ok := wctxGetters[name]; ok {
		return &Val{T: App(srt, "wctx_"+name, x.term(cs.args[0])), Ty: cs.res}
	}
	if strings.HasPrefix(name, "With") {
		nctx := x.sc.Fresh("ctx", SIface)
		x.assume(st, Not(Eq(nctx, Term{"inil", SIface})))
		set := strings.TrimPrefix(name, "With")
		for g, srt := range wctxGetters {
			if g == set && len(cs.args) > 1 {
				x.assume(st, Eq(App(srt, "wctx_"+g, nctx), x.term(cs.args[1])))
			} else {
				x.assume(st, Eq(App(srt, "wctx_"+g, nctx), App(srt, "wctx_"+g, x.term(cs.args[0]))))
			}
		}
		return &Val{T: nctx, Ty: cs.res}
	}
	return x.freshResult(st, "wctx", cs.res)
}

// net / http / session models used by the dashboard authentication (C19).
func init() {
	decl := func(x *Exec) {
		x.sc.Decl("netfns", `(declare-fun net.host (Str) Str)
(declare-fun net.splitok (Str) Bool)
(declare-fun net.iploopback (Str) Bool)
(declare-fun net.iploop (Slice) Bool)`)
	}
	libModels["net.SplitHostPort"] = func(x *Exec, cs *callSite) *Val {
		decl(x)
		x.assumeNote("net.SplitHostPort / net.ParseIP / IP.IsLoopback are deterministic functions of their string argument (uninterpreted)")
		s := x.term(cs.args[0])
		tup := cs.res.(*types.Tuple)
		e := x.sc.Fresh("split_err", SIface)
		x.assume(cs.st, Eq(Eq(e, Term{"inil", SIface}), App(SBool, "net.splitok", s)))
		return &Val{Ty: tup, Tuple: []*Val{{T: App(SStr, "net.host", s), Ty: tup.At(0).Type()}, x.freshVal(cs.st, "port", tup.At(1).Type()), {T: e, Ty: errorType}}}
	}
	libModels["net.ParseIP"] = func(x *Exec, cs *callSite) *Val {
		decl(x)
		ip := x.freshVal(cs.st, "ip", cs.res)
		x.assume(cs.st, Eq(App(SBool, "net.iploop", ip.T), App(SBool, "net.iploopback", x.term(cs.args[0]))))
		return ip
	}
	libModels["(net.IP).IsLoopback"] = func(x *Exec, cs *callSite) *Val {
		decl(x)
		return &Val{T: App(SBool, "net.iploop", x.term(cs.args[0])), Ty: types.Typ[types.Bool]}
	}
	for n, f := range map[string]string{"nethost": "net.host", "netsplitok": "net.splitok", "iploopback": "net.iploopback"} {
		f := f
		srt := SBool
		if n == "nethost" {
			srt = SStr
		}
		contractBuiltins[n] = func(x *Exec, env *CEnv, c *CCall) (*CV, error) {
			v, err := x.eval(env, c.Args[0])
			if err != nil {
				return nil, err
			}
			decl(x)
			ty := types.Type(types.Typ[types.Bool])
			if srt == SStr {
				ty = types.Typ[types.String]
			}
			return &CV{T: App(srt, f, x.cvTerm(v, nil)), Ty: ty}, nil
		}
	}
	// session.Get: whether the request carries a session this process issued (ghost session_err)
	libModels["github.com/kr/session.Get"] = func(x *Exec, cs *callSite) *Val {
		x.assumeNote("kr/session.Get returns nil exactly for a cookie that decrypts under this process's key (ghost session_err); it has no effect on program memory")
		old, ok := cs.st.ghost["n_session_get"]
		if !ok {
			old = IntConst(0)
		}
		cs.st.ghost["n_session_get"] = x.sc.Define("n_session_get", App(SInt, "+", old, IntConst(1)))
		return &Val{T: cs.st.ghost["session_err"], Ty: errorType}
	}
	libMods["github.com/kr/session.Get"] = func(x *Exec, m *modSet, _ *ssa.Function) { m.ghost["n_session_get"] = true }
	libModels["github.com/kr/session.Set"] = func(x *Exec, cs *callSite) *Val {
		old, ok := cs.st.ghost["n_session_set"]
		if !ok {
			old = IntConst(0)
		}
		cs.st.ghost["n_session_set"] = x.sc.Define("n_session_set", App(SInt, "+", old, IntConst(1)))
		return x.freshResult(cs.st, "session_set", cs.res)
	}
	libMods["github.com/kr/session.Set"] = func(x *Exec, m *modSet, _ *ssa.Function) { m.ghost["n_session_set"] = true }
	libModels["net/http.Redirect"] = func(x *Exec, cs *callSite) *Val {
		x.assumeNote("http.Redirect only writes the response (ghost redirect_code/redirect_url)")
		cs.st.ghost["redirect_url"] = x.term(cs.args[2])
		cs.st.ghost["redirect_code"] = x.term(cs.args[3])
		old, ok := cs.st.ghost["n_redirect"]
		if !ok {
			old = IntConst(0)
		}
		cs.st.ghost["n_redirect"] = x.sc.Define("n_redirect", App(SInt, "+", old, IntConst(1)))
		return &Val{}
	}
	libMods["net/http.Redirect"] = func(x *Exec, m *modSet, _ *ssa.Function) {
		m.ghost["redirect_url"], m.ghost["redirect_code"], m.ghost["n_redirect"] = true, true, true
	}
	libModels["net/http.Error"] = func(x *Exec, cs *callSite) *Val {
		cs.st.ghost["http_error_code"] = x.term(cs.args[2])
		return &Val{}
	}
	libMods["net/http.Error"] = func(x *Exec, m *modSet, _ *ssa.Function) { m.ghost["http_error_code"] = true }
	libModels["crypto/subtle.ConstantTimeCompare"] = func(x *Exec, cs *callSite) *Val {
		x.assumeNote("subtle.ConstantTimeCompare(a,b) == 1 iff bytes.Equal(a,b), else 0")
		eq := x.sc.Define("ctc_eq", x.bytesEq(cs.st, x.term(cs.args[0]), x.term(cs.args[1])))
		cs.st.ghost["ctc_equal"] = eq
		cs.st.ghost["ctc_b"] = x.term(cs.args[1])
		return &Val{T: x.sc.Define("ctc", Ite(eq, bv64(1), bv64(0))), Ty: types.Typ[types.Int]}
	}
	libMods["crypto/subtle.ConstantTimeCompare"] = func(x *Exec, m *modSet, _ *ssa.Function) {
		m.ghost["ctc_equal"], m.ghost["ctc_b"] = true, true
	}
}

// holiman/uint256 (assumed): a 256-bit value is its four limbs; SetBytes is a
// function of the byte content; Cmp orders values (uninterpreted total order
// predicate pair u256.lt / equality of limbs).
func init() {
	u256T := func(x *Exec) Sort { return ArraySort(SBV64, SBV64) }
	decl := func(x *Exec) {
		x.sc.Decl("u256", `(declare-fun u256.of ((Array Int (Array (_ BitVec 64) (_ BitVec 8))) Slice) (Array (_ BitVec 64) (_ BitVec 64)))
(declare-fun u256.lt ((Array (_ BitVec 64) (_ BitVec 64)) (Array (_ BitVec 64) (_ BitVec 64))) Bool)
(declare-fun u256.dec (Str) (Array (_ BitVec 64) (_ BitVec 64)))
(declare-fun u256.decok (Str) Bool)
(assert (forall ((a (Array (_ BitVec 64) (_ BitVec 64))) (b (Array (_ BitVec 64) (_ BitVec 64)))) (! (not (and (u256.lt a b) (u256.lt b a))) :pattern ((u256.lt a b)))))
(assert (forall ((a (Array (_ BitVec 64) (_ BitVec 64)))) (! (not (u256.lt a a)) :pattern ((u256.lt a a)))))
(assert (forall ((a (Array (_ BitVec 64) (_ BitVec 64))) (b (Array (_ BitVec 64) (_ BitVec 64)))) (! (or (= a b) (u256.lt a b) (u256.lt b a)) :pattern ((u256.lt a b)))))`)
	}
	libModels["(*github.com/holiman/uint256.Int).SetBytes"] = func(x *Exec, cs *callSite) *Val {
		decl(x)
		x.assumeNote("uint256.Int.SetBytes sets the value to a function of the byte content (big-endian, last 32 bytes); Cmp is a strict total order on values; SetFromDecimal parses a decimal string or fails")
		pt := cs.cc.Args[0].Type().Underlying().(*types.Pointer)
		loc := x.derefLoc(cs.st, cs.args[0], pt.Elem(), cs.pos, "uint256")
		v := App(u256T(x), "u256.of", x.heap(cs.st, SBV8), x.term(cs.args[1]))
		x.store(cs.st, loc, x.sc.Define("u256", v))
		return cs.args[0]
	}
	libMods["(*github.com/holiman/uint256.Int).SetBytes"] = func(x *Exec, m *modSet, callee *ssa.Function) {
		m.heaps[x.heapName(callee.Signature.Recv().Type().Underlying().(*types.Pointer).Elem())] = true
	}
	libModels["(*github.com/holiman/uint256.Int).SetFromDecimal"] = func(x *Exec, cs *callSite) *Val {
		decl(x)
		pt := cs.cc.Args[0].Type().Underlying().(*types.Pointer)
		loc := x.derefLoc(cs.st, cs.args[0], pt.Elem(), cs.pos, "uint256")
		s := x.term(cs.args[1])
		okc := App(SBool, "u256.decok", s)
		old := x.load(cs.st, loc)
		x.store(cs.st, loc, x.sc.Define("u256dec", Ite(okc, App(u256T(x), "u256.dec", s), old)))
		e := x.sc.Fresh("u256_err", SIface)
		x.assume(cs.st, Eq(Eq(e, Term{"inil", SIface}), okc))
		return &Val{T: e, Ty: errorType}
	}
	libMods["(*github.com/holiman/uint256.Int).SetFromDecimal"] = libMods["(*github.com/holiman/uint256.Int).SetBytes"]
	libModels["(*github.com/holiman/uint256.Int).Cmp"] = func(x *Exec, cs *callSite) *Val {
		decl(x)
		pt := cs.cc.Args[0].Type().Underlying().(*types.Pointer)
		a := x.load(cs.st, x.derefLoc(cs.st, cs.args[0], pt.Elem(), cs.pos, "uint256"))
		b := x.load(cs.st, x.derefLoc(cs.st, cs.args[1], pt.Elem(), cs.pos, "uint256"))
		r := Ite(Eq(a, b), bv64(0), Ite(App(SBool, "u256.lt", a, b), bv64(^uint64(0)), bv64(1)))
		return &Val{T: x.sc.Define("u256cmp", r), Ty: types.Typ[types.Int]}
	}
	contractBuiltins["u256of"] = func(x *Exec, env *CEnv, n *CCall) (*CV, error) {
		v, err := x.eval(env, n.Args[0])
		if err != nil {
			return nil, err
		}
		decl(x)
		if env.specHeaps != nil {
			env.specHeaps[x.heapName(SBV8)] = true
		}
		return &CV{T: App(u256T(x), "u256.of", x.heap(env.st, SBV8), x.cvTerm(v, nil))}, nil
	}
	contractBuiltins["u256dec"] = func(x *Exec, env *CEnv, n *CCall) (*CV, error) {
		v, err := x.eval(env, n.Args[0])
		if err != nil {
			return nil, err
		}
		decl(x)
		return &CV{T: App(u256T(x), "u256.dec", x.cvTerm(v, nil))}, nil
	}
	contractBuiltins["u256decok"] = func(x *Exec, env *CEnv, n *CCall) (*CV, error) {
		v, err := x.eval(env, n.Args[0])
		if err != nil {
			return nil, err
		}
		decl(x)
		return &CV{T: App(SBool, "u256.decok", x.cvTerm(v, nil)), Ty: types.Typ[types.Bool]}, nil
	}
	contractBuiltins["u256lt"] = func(x *Exec, env *CEnv, n *CCall) (*CV, error) {
		a, err := x.eval(env, n.Args[0])
		if err != nil {
			return nil, err
		}
		b, err := x.eval(env, n.Args[1])
		if err != nil {
			return nil, err
		}
		decl(x)
		return &CV{T: App(SBool, "u256.lt", x.cvTerm(a, nil), x.cvTerm(b, nil)), Ty: types.Typ[types.Bool]}, nil
	}
	contractBuiltins["hasprefix"] = func(x *Exec, env *CEnv, n *CCall) (*CV, error) {
		v, err := x.eval(env, n.Args[0])
		if err != nil {
			return nil, err
		}
		lit, ok := n.Args[1].(*CStr)
		if !ok {
			return nil, fmt.Errorf("hasprefix: literal prefix expected")
		}
		return &CV{T: x.hasPrefixTerm(x.cvTerm(v, nil), lit.V), Ty: types.Typ[types.Bool]}, nil
	}
	contractBuiltins["hassuffix"] = func(x *Exec, env *CEnv, n *CCall) (*CV, error) {
		v, err := x.eval(env, n.Args[0])
		if err != nil {
			return nil, err
		}
		lit, ok := n.Args[1].(*CStr)
		if !ok {
			return nil, fmt.Errorf("hassuffix: literal suffix expected")
		}
		return &CV{T: x.hasSuffixTerm(x.cvTerm(v, nil), lit.V), Ty: types.Typ[types.Bool]}, nil
	}
}

func init() {
	decl := func(x *Exec) {
		x.sc.Decl("strconvfns", "(declare-fun strconv.u64 (Str) (_ BitVec 64))\n(declare-fun strconv.isu64 (Str) Bool)")
	}
	libModels["strconv.ParseUint"] = func(x *Exec, cs *callSite) *Val {
		decl(x)
		x.assumeNote("strconv.ParseUint(s, 10, 64) returns (value(s), nil) for a decimal 64-bit numeral and an error otherwise (uninterpreted value/validity functions of s)")
		s := x.term(cs.args[0])
		tup := cs.res.(*types.Tuple)
		e := x.sc.Fresh("parse_err", SIface)
		okc := App(SBool, "strconv.isu64", s)
		x.assume(cs.st, Eq(Eq(e, Term{"inil", SIface}), okc))
		return &Val{Ty: tup, Tuple: []*Val{{T: Ite(okc, App(SBV64, "strconv.u64", s), bv64(0)), Ty: tup.At(0).Type()}, {T: e, Ty: errorType}}}
	}
	contractBuiltins["parseu64"] = func(x *Exec, env *CEnv, n *CCall) (*CV, error) {
		v, err := x.eval(env, n.Args[0])
		if err != nil {
			return nil, err
		}
		decl(x)
		return &CV{T: App(SBV64, "strconv.u64", x.cvTerm(v, nil)), Ty: types.Typ[types.Uint64]}, nil
	}
	contractBuiltins["isu64"] = func(x *Exec, env *CEnv, n *CCall) (*CV, error) {
		v, err := x.eval(env, n.Args[0])
		if err != nil {
			return nil, err
		}
		decl(x)
		return &CV{T: App(SBool, "strconv.isu64", x.cvTerm(v, nil)), Ty: types.Typ[types.Bool]}, nil
	}
	// slices.Contains over []string: membership
	libModels["slices.Contains"] = func(x *Exec, cs *callSite) *Val {
		sl, ok := cs.cc.Args[0].Type().Underlying().(*types.Slice)
		if !ok || !isString(sl.Elem()) {
			x.assumeNote("slices.Contains on a non-string slice summarised as an unconstrained result")
			return x.freshResult(cs.st, "contains", cs.res)
		}
		x.assumeNote("slices.Contains(s, v) == exists i. s[i] == v")
		s, v := x.term(cs.args[0]), x.term(cs.args[1])
		h := x.heap(cs.st, sl.Elem())
		arr := x.sc.Define("contains_arr", Select(h, sBase(s)))
		t := T(SBool, "(exists ((a (_ BitVec 64))) (and (bvult (bvsub a %s) %s) (= (select %s a) %s)))", sOff(s).S, sLen(s).S, arr.S, v.S)
		return &Val{T: x.sc.Define("contains", t), Ty: types.Typ[types.Bool]}
	}
	delete(pureFuncs, "slices.Contains")
}

// Package-level tables: string slices initialised by a composite literal of
// constants are read from the source on every run.
func (w *World) stringTable(pkgPath, name string) ([]string, bool) {
	for _, p := range w.pkgs {
		if p.PkgPath != pkgPath {
			continue
		}
		for _, f := range p.Syntax {
			for _, d := range f.Decls {
				gd, ok := d.(*ast.GenDecl)
				if !ok || gd.Tok != token.VAR {
					continue
				}
				for _, sp := range gd.Specs {
					vs := sp.(*ast.ValueSpec)
					for i, n := range vs.Names {
						if n.Name != name || i >= len(vs.Values) {
							continue
						}
						cl, ok := vs.Values[i].(*ast.CompositeLit)
						if !ok {
							return nil, false
						}
						var out []string
						for _, e := range cl.Elts {
							tv, ok := p.TypesInfo.Types[e]
							if !ok || tv.Value == nil || tv.Value.Kind() != constant.String {
								return nil, false
							}
							out = append(out, constant.StringVal(tv.Value))
						}
						return out, true
					}
				}
			}
		}
	}
	return nil, false
}

func init() {
	// intable("name", x): x is one of the literals of the package-level table
	contractBuiltins["intable"] = func(x *Exec, env *CEnv, n *CCall) (*CV, error) {
		nm, ok := n.Args[0].(*CStr)
		if !ok {
			return nil, fmt.Errorf("intable: table name in quotes expected")
		}
		v, err := x.eval(env, n.Args[1])
		if err != nil {
			return nil, err
		}
		pkg := ""
		if env.pkg != nil {
			pkg = env.pkg.Path()
		}
		tbl, ok := x.w.stringTable(pkg, nm.V)
		if !ok {
			// tables of package glf are also used from other packages' contracts
			tbl, ok = x.w.stringTable(repoMod+"/shovel/glf", nm.V)
		}
		if !ok {
			return nil, fmt.Errorf("intable: no constant string table %q", nm.V)
		}
		vt := x.cvTerm(v, nil)
		var ds []Term
		for _, s := range tbl {
			ds = append(ds, Eq(vt, x.strLit(s)))
		}
		return &CV{T: Or(ds...), Ty: types.Typ[types.Bool]}, nil
	}
}
