package main

// E2 ordering / detachment clauses, discharged by dataflow over go/ssa
// (back end "flow"):
//
//	before <func> <calleeA> <calleeB> [props=..]
//	    every call of calleeB in <func> is dominated by a call of calleeA
//	    (e.g. the random bytes are read before they are encoded)
//	    (a call of calleeB inside a closure that <func> defers counts as
//	    happening at each return of <func>)
//	apart <func> <calleeA> <calleeB> [props=..]
//	    no value is an argument of both a call of calleeA and a call of calleeB
//	    in <func> (e.g. what is given to an HTTP request as its body is never
//	    handed to a pool: the library may still be reading it)
//	frozen <pkg.Type>.<field> [props=..]
//	    no function of the repository stores to that field (e.g. the remote
//	    address of a request, which the authentication decision reads)
//	detached <func> [props=..]
//	    a goroutine started by <func> (directly or in one of its closures)
//	    receives no value derived from a context.Context parameter of <func>:
//	    background work must not carry request-scoped state (counters, values)

import (
	"fmt"
	"go/types"
	"sort"
	"strings"

	"golang.org/x/tools/go/ssa"
)

func calleeMatches(name, want string) bool {
	if name == want {
		return true
	}
	if strings.HasSuffix(name, want) {
		c := name[len(name)-len(want)-1]
		return c == '/' || c == '.' || c == ')'
	}
	return false
}

func anonClosure(fn *ssa.Function) []*ssa.Function {
	out := []*ssa.Function{fn}
	for _, a := range fn.AnonFuncs {
		out = append(out, anonClosure(a)...)
	}
	return out
}

func flowOrderClauses(w *World, prop string) []*Obligation {
	var obls []*Obligation
	var pkgPaths []string
	for pp := range w.files {
		pkgPaths = append(pkgPaths, pp)
	}
	sort.Strings(pkgPaths)
	for _, pp := range pkgPaths {
		rel := strings.TrimPrefix(pp, repoMod+"/")
		for _, g := range w.files[pp].Guards {
			if !hasProp(g.Props, prop) || (g.Kind != "before" && g.Kind != "detached" && g.Kind != "frozen" && g.Kind != "apart") {
				continue
			}
			if g.Kind == "frozen" {
				obls = append(obls, frozenField(w, prop, rel, g))
				continue
			}
			fn := w.findFunc(pp, g.Func)
			if fn == nil {
				obls = append(obls, flowObl(prop, rel+"."+g.Func+":"+g.Kind, "clause resolves", false, "function not found"))
				continue
			}
			switch g.Kind {
			case "apart":
				a, b := g.Fields[0], g.Fields[1]
				root := func(v ssa.Value) ssa.Value {
					for {
						switch x := v.(type) {
						case *ssa.MakeInterface:
							v = x.X
						case *ssa.ChangeType:
							v = x.X
						case *ssa.ChangeInterface:
							v = x.X
						case *ssa.Convert:
							v = x.X
						default:
							return v
						}
					}
				}
				ok, detail := true, ""
				for _, f := range anonClosure(fn) {
					// everything derived from a value that is given to calleeB
					derived := map[ssa.Value]bool{}
					for _, blk := range f.Blocks {
						for _, ins := range blk.Instrs {
							if c, isCall := ins.(ssa.CallInstruction); isCall && calleeMatches(calleeName(c.Common()), b) {
								for _, arg := range c.Common().Args {
									if _, isConst := root(arg).(*ssa.Const); !isConst {
										derived[root(arg)] = true
									}
								}
							}
						}
					}
					for changed := true; changed; {
						changed = false
						for _, blk := range f.Blocks {
							for _, ins := range blk.Instrs {
								v, isVal := ins.(ssa.Value)
								if !isVal || derived[v] {
									continue
								}
								var ops []*ssa.Value
								for _, o := range ins.Operands(ops) {
									if *o != nil && derived[root(*o)] {
										derived[v] = true
										changed = true
										break
									}
								}
							}
						}
					}
					for _, blk := range f.Blocks {
						for _, ins := range blk.Instrs {
							if c, isCall := ins.(ssa.CallInstruction); isCall && calleeMatches(calleeName(c.Common()), a) {
								for _, arg := range c.Common().Args {
									if derived[root(arg)] {
										ok = false
										detail += fmt.Sprintf("a value given to %s is (derived from) a value given to %s: %s\n", a, b, srcLine(w, f, insPos(ins)))
									}
								}
							}
						}
					}
				}
				obls = append(obls, flowObl(prop, rel+"."+g.Func+":apart["+a+","+b+"]", "no value is given both to "+a+" and to "+b, ok, detail))
			case "before":
				a, b := g.Fields[0], g.Fields[1]
				ok, detail, nB := true, "", 0
				type site struct {
					blk *ssa.BasicBlock
					idx int
				}
				// closures that fn defers: their calls happen at fn's returns
				deferred := map[*ssa.Function]bool{}
				var fnAs []site
				for _, blk := range fn.Blocks {
					for i, ins := range blk.Instrs {
						if d, isDefer := ins.(*ssa.Defer); isDefer {
							if mc, isMC := d.Call.Value.(*ssa.MakeClosure); isMC {
								deferred[mc.Fn.(*ssa.Function)] = true
							}
						}
						if c, isCall := ins.(ssa.CallInstruction); isCall && calleeMatches(calleeName(c.Common()), a) {
							if _, isDefer := ins.(*ssa.Defer); !isDefer {
								fnAs = append(fnAs, site{blk, i})
							}
						}
					}
				}
				for _, f := range anonClosure(fn) {
					if deferred[f] {
						for _, blk := range f.Blocks {
							for _, ins := range blk.Instrs {
								c, isCall := ins.(ssa.CallInstruction)
								if !isCall || !calleeMatches(calleeName(c.Common()), b) {
									continue
								}
								nB++
								for _, rb := range fn.Blocks {
									for ri, rins := range rb.Instrs {
										if _, isRD := rins.(*ssa.RunDefers); !isRD {
											continue
										}
										dom := false
										for _, s := range fnAs {
											if s.blk == rb && s.idx < ri || s.blk != rb && s.blk.Dominates(rb) {
												dom = true
											}
										}
										if !dom {
											ok = false
											detail += fmt.Sprintf("the deferred %s runs at a return that no %s precedes: %s\n", b, a, srcLine(w, fn, insPos(rins)))
										}
									}
								}
							}
						}
						continue
					}
					var as []site
					for _, blk := range f.Blocks {
						for i, ins := range blk.Instrs {
							if c, isCall := ins.(ssa.CallInstruction); isCall && calleeMatches(calleeName(c.Common()), a) {
								as = append(as, site{blk, i})
							}
						}
					}
					for _, blk := range f.Blocks {
						for i, ins := range blk.Instrs {
							c, isCall := ins.(ssa.CallInstruction)
							if !isCall || !calleeMatches(calleeName(c.Common()), b) {
								continue
							}
							nB++
							dom := false
							for _, s := range as {
								if s.blk == blk && s.idx < i || s.blk != blk && s.blk.Dominates(blk) {
									dom = true
								}
							}
							if !dom {
								ok = false
								detail += fmt.Sprintf("%s is reached without a preceding %s: %s\n", b, a, srcLine(w, f, insPos(ins)))
							}
						}
					}
				}
				if nB == 0 {
					ok, detail = false, "no call of "+b+" in "+g.Func+" (the clause no longer describes the code)"
				}
				obls = append(obls, flowObl(prop, rel+"."+g.Func+":before["+a+","+b+"]", "every call of "+b+" is dominated by a call of "+a, ok, detail))
			case "detached":
				ok, detail, nGo := true, "", 0
				tainted := map[ssa.Value]bool{}
				for _, p := range fn.Params {
					if isContextType(p.Type()) {
						tainted[p] = true
					}
				}
				fns := anonClosure(fn)
				for changed := true; changed; {
					changed = false
					mark := func(v ssa.Value) {
						if v != nil && !tainted[v] {
							tainted[v] = true
							changed = true
						}
					}
					for _, f := range fns {
						for _, blk := range f.Blocks {
							for _, ins := range blk.Instrs {
								v, isVal := ins.(ssa.Value)
								var ops []*ssa.Value
								ops = ins.Operands(ops)
								any := false
								for _, o := range ops {
									if *o != nil && tainted[*o] {
										any = true
									}
								}
								if mc, isMC := ins.(*ssa.MakeClosure); isMC {
									for k, bnd := range mc.Bindings {
										if tainted[bnd] {
											mark(mc.Fn.(*ssa.Function).FreeVars[k])
										}
									}
								}
								if st, isStore := ins.(*ssa.Store); isStore && tainted[st.Val] {
									mark(st.Addr)
								}
								if any && isVal {
									if _, isGo := ins.(*ssa.Go); !isGo {
										mark(v)
									}
								}
							}
						}
					}
				}
				for _, f := range fns {
					for _, blk := range f.Blocks {
						for _, ins := range blk.Instrs {
							gi, isGo := ins.(*ssa.Go)
							if !isGo {
								continue
							}
							nGo++
							bad := false
							for _, a := range gi.Call.Args {
								bad = bad || tainted[a]
							}
							if mc, isMC := gi.Call.Value.(*ssa.MakeClosure); isMC {
								for _, bnd := range mc.Bindings {
									bad = bad || tainted[bnd]
								}
							} else if tainted[gi.Call.Value] {
								bad = true
							}
							if bad {
								ok = false
								detail += "the goroutine receives a value derived from the caller's context: " + srcLine(w, f, insPos(ins)) + "\n"
							}
						}
					}
				}
				if nGo == 0 {
					ok, detail = false, "no go statement in "+g.Func+" (the clause no longer describes the code)"
				}
				obls = append(obls, flowObl(prop, rel+"."+g.Func+":detached", "goroutines started by "+g.Func+" carry nothing derived from the caller's context", ok, detail))
			}
		}
	}
	return obls
}

func isContextType(t types.Type) bool {
	n, ok := t.(*types.Named)
	return ok && n.Obj().Pkg() != nil && n.Obj().Pkg().Path() == "context" && n.Obj().Name() == "Context"
}

func frozenField(w *World, prop, rel string, g *GuardClause) *Obligation {
	// g.Type = "http.Request" (package name + type), g.Fields[0] = field
	ok, detail, seenType := true, "", false
	var pps []string
	for pp := range w.spkgs {
		if strings.HasPrefix(pp, repoMod) {
			pps = append(pps, pp)
		}
	}
	sort.Strings(pps)
	for _, pp := range pps {
		for _, fn := range allFuncs(w.spkgs[pp]) {
			for _, blk := range fn.Blocks {
				for _, ins := range blk.Instrs {
					st, isStore := ins.(*ssa.Store)
					if !isStore {
						continue
					}
					fa, isFA := st.Addr.(*ssa.FieldAddr)
					if !isFA {
						continue
					}
					n := namedOfPtr(fa.X.Type())
					if n == nil || n.Obj().Pkg() == nil || n.Obj().Pkg().Name()+"."+n.Obj().Name() != g.Type {
						continue
					}
					seenType = true
					if structFieldName(fa) == g.Fields[0] {
						ok = false
						detail += fmt.Sprintf("%s stores to %s.%s: %s\n", fn.String(), g.Type, g.Fields[0], srcLine(w, fn, insPos(ins)))
					}
				}
			}
		}
	}
	_ = seenType
	return flowObl(prop, rel+":frozen["+g.Type+"."+g.Fields[0]+"]", "no function of the repository stores to "+g.Type+"."+g.Fields[0], ok, detail)
}
