package main

import (
	"fmt"
	"go/types"
	"sort"
	"strings"
)

// Lemmas: ghost proof obligations over spec functions. A lemma with an
// `induct v` line may use its own statement for v-1 (induction hypothesis,
// guarded by 0 < v so that the recursion is well founded).
func (w *World) lemmaObligations(prop string) ([]*Obligation, []string) {
	var out []*Obligation
	var errs []string
	var paths []string
	for p := range w.files {
		paths = append(paths, p)
	}
	sort.Strings(paths)
	for _, p := range paths {
		cf := w.files[p]
		var names []string
		for n, sp := range cf.Specs {
			if sp.IsLemma && hasProp(sp.Props, prop) {
				names = append(names, n)
			}
		}
		sort.Strings(names)
		for _, n := range names {
			sp := cf.Specs[n]
			obls, err := w.lemmaObl(sp)
			if err != nil {
				errs = append(errs, err.Error())
				out = append(out, &Obligation{Name: "lemma:" + sp.Name + ":vcgen", Kind: "unsupported", Func: "lemma " + sp.Name, Props: sp.Props, Desc: err.Error(), Status: "failed"})
				continue
			}
			out = append(out, obls...)
		}
	}
	if prop == "C01" || prop == "C02" {
		// pure bit-vector fact behind the consecutive-numbers form of Destination.Insert
		x := NewExec(w)
		b0, n, m := x.sc.Fresh("b0", SBV64), x.sc.Fresh("n", SBV64), x.sc.Fresh("m", SBV64)
		goal := T(SBool, "(= (exists ((j (_ BitVec 64))) (and (bvult j %s) (= (bvadd %s j) %s))) (bvult (bvsub %s %s) %s))", n.S, b0.S, m.S, m.S, b0.S, n.S)
		out = append(out, &Obligation{Name: "lemma:contig-witness", Kind: "lemma", Func: "lemma contig-witness", Props: []string{prop}, Pos: x.sc.Pos(), Goal: goal,
			Desc: "(exists j < n. b0+j == m) <==> (m-b0 < n) over 64-bit vectors", Script: x.sc})
	}
	return out, errs
}

func (w *World) lemmaObl(sp *SpecFunc) (obls []*Obligation, err error) {
	x := NewExec(w)
	x.curFunc = "lemma " + sp.Name
	defer func() {
		if r := recover(); r != nil {
			err = fmt.Errorf("lemma %s: %v", sp.Name, r)
		}
	}()
	st := &State{reach: TTrue, heaps: map[string]Term{}, cells: map[cellKey]Term{}, ghost: map[string]Term{}}
	x.sc.Decl("alloc_init", "(declare-const alloc_init (Array Int Bool))\n(assert (select alloc_init 0))")
	st.alloc = Term{"alloc_init", ArraySort(SInt, SBool)}
	x.heapDecl(SBV8)
	pkg := w.typesPkg(sp.Pkg)
	env := &CEnv{x: x, st: st, old: st, vars: map[string]*CV{}, pkg: pkg}
	for _, p := range sp.Params {
		var ty types.Type
		srt := SInt
		if ps, ok := pseudoSorts[p.Type]; ok {
			srt = ps
		} else {
			t, err := x.resolveType(env, p.Type)
			if err != nil {
				return nil, err
			}
			ty = t
			srt = x.sortOf(t)
		}
		v := x.sc.Fresh("l_"+p.Name, srt)
		if ty != nil {
			x.assume(st, x.typeInv(v, ty, st, 2))
		}
		env.vars[p.Name] = &CV{T: v, Ty: ty}
	}
	for _, c := range sp.Requires {
		t, err := x.evalBool(env, c.Expr)
		if err != nil {
			return nil, fmt.Errorf("lemma %s requires: %v", sp.Name, err)
		}
		x.assume(st, t)
	}
	if sp.Induct != "" {
		iv, ok := env.vars[sp.Induct]
		if !ok {
			return nil, fmt.Errorf("lemma %s: induct on unknown variable %s", sp.Name, sp.Induct)
		}
		w := iv.T.Sort.BVWidth()
		pred := &CV{T: App(iv.T.Sort, "bvsub", iv.T, BVConst(1, w)), Ty: iv.Ty}
		env2 := *env
		env2.vars = map[string]*CV{}
		for k, v := range env.vars {
			env2.vars[k] = v
		}
		env2.vars[sp.Induct] = pred
		var pre, post []Term
		for _, c := range sp.Requires {
			t, err := x.evalBool(&env2, c.Expr)
			if err != nil {
				return nil, err
			}
			pre = append(pre, t)
		}
		for _, c := range sp.Ensures {
			t, err := x.evalBool(&env2, c.Expr)
			if err != nil {
				return nil, err
			}
			post = append(post, t)
		}
		x.assume(st, Implies(And(append(pre, App(SBool, "bvsgt", iv.T, BVConst(0, w)))...), And(post...)))
	}
	o := x.obligation(st, "cover", "lemma:"+sp.Name+":cover", TFalse, sp.Props, "lemma hypotheses satisfiable", "")
	o.Cover = true
	for i, c := range sp.Ensures {
		t, err := x.evalBool(env, c.Expr)
		if err != nil {
			return nil, fmt.Errorf("lemma %s ensures: %v", sp.Name, err)
		}
		name := fmt.Sprintf("lemma:%s:ensures#%d", sp.Name, i)
		if c.Name != "" {
			name = fmt.Sprintf("lemma:%s:ensures[%s]", sp.Name, c.Name)
		}
		x.obligation(st, "lemma", name, t, sp.Props, strings.TrimSpace(c.Text), fmt.Sprintf("%s:%d", c.File, c.Line))
	}
	if len(x.unsup) > 0 {
		return nil, fmt.Errorf("lemma %s: %s", sp.Name, strings.Join(x.unsup, "; "))
	}
	d := x.strDistinctDecl()
	for _, o := range x.obls {
		o.Extra = d
	}
	return x.obls, nil
}
