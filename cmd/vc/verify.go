package main

import (
	"fmt"
	"go/types"
	"os"
	"path/filepath"
	"sort"
	"strings"
	"sync"
	"time"

	"golang.org/x/tools/go/ssa"
)

// verifyFunc generates all obligations of one function under contract.
func (w *World) verifyFunc(fn *ssa.Function, c *FuncContract) (x *Exec, err error) {
	x = NewExec(w)
	x.top, x.topC = fn, c
	x.curFunc = relFuncName(fn)
	defer func() {
		if r := recover(); r != nil {
			err = fmt.Errorf("VC generation for %s failed: %v", x.curFunc, r)
			if os.Getenv("VC_DEBUG") != "" {
				panic(r)
			}
		}
	}()
	x.predeclare(fn, map[*ssa.Function]bool{})
	// sentinel errors of the package are known from the start, so that every
	// freshly created error is distinct from all of them
	if fn.Pkg != nil {
		var names []string
		for n, m := range fn.Pkg.Members {
			if g, ok := m.(*ssa.Global); ok && types.Identical(g.Type().(*types.Pointer).Elem(), errorType) {
				names = append(names, n)
			}
		}
		sort.Strings(names)
		for _, n := range names {
			x.globalInit(nil, fn.Pkg.Members[n].(*ssa.Global))
		}
	}
	st := &State{reach: TTrue, heaps: map[string]Term{}, cells: map[cellKey]Term{}, ghost: map[string]Term{}}
	x.sc.Decl("alloc_init", "(declare-const alloc_init (Array Int Bool))\n(assert (select alloc_init 0))")
	st.alloc = Term{"alloc_init", ArraySort(SInt, SBool)}
	st.ghost["eg_err"] = Term{"((as const (Array Int Iface)) inil)", ArraySort(SInt, SIface)}
	st.ghost["session_err"] = x.sc.Fresh("session_err", SIface)
	st.ghost["n_session_get"], st.ghost["n_session_set"], st.ghost["n_redirect"] = IntConst(0), IntConst(0), IntConst(0)
	st.ghost["redirect_code"] = bv64(0)
	st.ghost["redirect_url"] = x.strLit("")
	st.ghost["http_error_code"] = bv64(0)
	st.ghost["ctc_equal"] = TFalse
	st.ghost["ctc_b"] = nilSlice
	x.initGhost(st)
	fr := x.newFrame(fn, false)
	fr.c = c
	x.curFrame, x.topFrame = fr, fr
	for i, p := range fn.Params {
		v := x.freshVal(st, "p_"+p.Name(), p.Type())
		fr.env[p] = v
		if pt, ok := p.Type().Underlying().(*types.Pointer); ok {
			if _, isStruct := pt.Elem().Underlying().(*types.Struct); isStruct {
				loc := x.locOfPtr(v.T, pt.Elem())
				x.assume(st, Implies(Not(Eq(v.T, Term{"pnil", SPtr})), x.typeInv(x.load(st, loc), pt.Elem(), st, 2)))
			}
		}
		if i == 0 && fn.Signature.Recv() != nil {
			if _, ok := p.Type().Underlying().(*types.Pointer); ok {
				x.assume(st, Not(Eq(v.T, Term{"pnil", SPtr})))
				x.assumeNote("pointer receivers are non-nil (checked at every contract call site)")
			}
		}
	}
	for _, p := range fn.FreeVars {
		v := x.freshVal(st, "fv_"+p.Name(), p.Type())
		fr.env[p] = v
		if _, ok := p.Type().Underlying().(*types.Pointer); ok {
			x.assume(st, Not(Eq(v.T, Term{"pnil", SPtr})))
		}
	}
	fr.entry = st.clone()
	// preconditions
	env := x.contractEnv(fr, st)
	for _, cl := range c.Clauses {
		if cl.Kind != "requires" {
			continue
		}
		t, err := x.evalBool(env.assuming(), cl.Expr)
		if err != nil {
			return x, fmt.Errorf("%s: requires: %v", x.curFunc, err)
		}
		x.assume(st, t)
		x.assumeNote(fmt.Sprintf("precondition of %s, assumed at its entry and checked only at call sites inside functions under contract: %s", x.curFunc, truncate(cl.Text, 160)))
	}
	fr.entry = st.clone()
	x.topEntryAlloc = st.alloc
	// vacuity: the precondition must be satisfiable
	o := x.obligation(st, "cover", x.curFunc+":pre:cover", TFalse, c.Props, "precondition satisfiable", "")
	o.Cover = true
	x.runBody(fr, st)
	for _, cl := range c.Clauses {
		if cl.Kind == "atcall" && x.atcallHits[cl] == 0 {
			x.unsupported(fmt.Sprintf("atcall clause [%s] on %s was checked at no call site", cl.Name, cl.Opt))
		}
	}
	// postconditions at every return point
	nret := 0
	for _, r := range fr.rets {
		if r.st.dead || r.st.reach.S == "false" {
			continue
		}
		nret++
		env := x.contractEnv(fr, r.st)
		var res *Val
		switch len(r.vals) {
		case 0:
		case 1:
			res = r.vals[0]
		default:
			res = &Val{Tuple: r.vals}
		}
		x.bindResults(env, fn, res)
		for i, cl := range c.Clauses {
			if cl.Kind != "ensures" {
				continue
			}
			parts := conjuncts(cl.Expr)
			for pi, pe := range parts {
				t, err := x.evalBool(env.proving(), pe)
				if err != nil {
					return x, fmt.Errorf("%s: ensures: %v in %q", x.curFunc, err, cl.Text)
				}
				name := fmt.Sprintf("%s:ensures#%d", x.curFunc, i)
				if cl.Name != "" {
					name = fmt.Sprintf("%s:ensures[%s]", x.curFunc, cl.Name)
				}
				name = partName(name, pi, len(parts))
				if nret > 1 {
					name += fmt.Sprintf("@ret%d", nret)
				}
				o := x.obligation(r.st, "ensures", name, t, clauseProps(fr, cl), cl.Text, fmt.Sprintf("%s:%d", cl.File, cl.Line))
				// later postconditions may use earlier ones (each is proved on its own)
				x.sc.Assume(Implies(r.st.reach, t))
				var ps []*Val
				for _, p := range fn.Params {
					ps = append(ps, fr.env[p])
				}
				o.Replay = &replaySpec{fn: fn, params: ps, results: r.vals, entry: fr.entry, final: r.st, x: x}
			}
		}
	}
	if len(x.unsup) > 0 {
		// an unsupported construct in a function under contract: its obligations are not trusted
		sort.Strings(x.unsup)
		x.obls = append(x.obls, &Obligation{Name: x.curFunc + ":unsupported", Kind: "unsupported", Func: x.curFunc, Props: c.Props,
			Desc: "constructs outside the modelled subset: " + strings.Join(uniq(x.unsup), "; "), Status: "failed", Script: x.sc})
	}
	return x, nil
}

func uniq(xs []string) []string {
	var out []string
	seen := map[string]bool{}
	for _, s := range xs {
		if !seen[s] {
			seen[s] = true
			out = append(out, s)
		}
	}
	return out
}

// predeclare registers every heap that the function (and what it calls
// inside the repository) can touch, so that "havoc all heaps" is complete.
func (x *Exec) predeclare(fn *ssa.Function, seen map[*ssa.Function]bool) {
	if seen[fn] || len(seen) > 400 {
		return
	}
	seen[fn] = true
	reg := func(t types.Type) {
		defer func() { recover() }()
		switch u := t.Underlying().(type) {
		case *types.Slice:
			x.heapDecl(u.Elem())
		case *types.Pointer:
			if _, ok := u.Elem().Underlying().(*types.Array); !ok {
				x.heapDecl(u.Elem())
			} else {
				x.heapDecl(u.Elem())
			}
		case *types.Map:
			st := &State{heaps: map[string]Term{}}
			x.mapHeaps(st, u)
		}
	}
	for _, p := range fn.Params {
		reg(p.Type())
	}
	for _, b := range fn.Blocks {
		for _, ins := range b.Instrs {
			if v, ok := ins.(ssa.Value); ok {
				reg(v.Type())
			}
			var cc *ssa.CallCommon
			switch i := ins.(type) {
			case *ssa.Call:
				cc = i.Common()
			case *ssa.Go:
				cc = i.Common()
			case *ssa.Defer:
				cc = i.Common()
			case *ssa.MakeClosure:
				x.predeclare(i.Fn.(*ssa.Function), seen)
			}
			if cc != nil && !cc.IsInvoke() {
				if callee, ok := cc.Value.(*ssa.Function); ok && x.inlinableStatic(callee) {
					x.predeclare(callee, seen)
				}
			}
		}
	}
	x.heapDecl(SBV8)
	x.heapDecl(SIface)
}

func (x *Exec) heapDecl(k any) {
	name, es := x.hkey(k)
	if _, ok := x.heapSorts[name]; ok {
		return
	}
	x.heapSorts[name] = heapSort(es)
	x.sc.Decl("heap:"+name, fmt.Sprintf("(declare-const %s_init %s)", name, heapSort(es)))
}

// ---------------------------------------------------------------------------
// solving

type RunConfig struct {
	Tier     string
	Timeout  time.Duration
	WorkDir  string
	Solvers  []string
	Parallel int
}

func solveAll(obls []*Obligation, cfg RunConfig) {
	os.MkdirAll(cfg.WorkDir, 0o755)
	// block covers run one solver process each: a wider pool for them
	solvePass(obls, cfg, cfg.Parallel, func(o *Obligation) bool { return !(o.Cover && (strings.Contains(o.Name, ":block#") || strings.Contains(o.Name, " block#"))) })
	solvePass(obls, cfg, cfg.Parallel*4, func(o *Obligation) bool { return o.Cover && (strings.Contains(o.Name, ":block#") || strings.Contains(o.Name, " block#")) })
}

func solvePass(obls []*Obligation, cfg RunConfig, par int, want func(*Obligation) bool) {
	var wg sync.WaitGroup
	sem := make(chan struct{}, par)
	for i, o := range obls {
		if o.Kind == "unsupported" || o.Kind == "flow" || o.Kind == "bounded" || o.Status != "" || !want(o) {
			continue
		}
		wg.Add(1)
		sem <- struct{}{}
		go func(i int, o *Obligation) {
			defer wg.Done()
			defer func() { <-sem }()
			solveOne(i, o, cfg)
		}(i, o)
	}
	wg.Wait()
}

func oblFile(cfg RunConfig, i int, o *Obligation) string {
	return filepath.Join(cfg.WorkDir, fmt.Sprintf("o%04d_%s.smt2", i, truncate(mangleIdent(o.Name), 80)))
}

func solveOne(i int, o *Obligation, cfg RunConfig) {
	file := oblFile(cfg, i, o)
	q := o.Script.Query(o.Pos, Not(o.Goal), false)
	if o.Extra != "" {
		q = strings.Replace(q, "(check-sat)", o.Extra+"\n(check-sat)", 1)
	}
	q = "; obligation: " + o.Name + "\n; " + strings.ReplaceAll(o.Desc, "\n", " ") + "\n" + q
	os.WriteFile(file, []byte(q), 0o644)
	budget := cfg.Timeout
	solvers := cfg.Solvers
	if o.Cover && budget > 4*time.Second {
		budget = 4 * time.Second // a contradiction shows up at once; 'unknown' is the usual answer
	}
	if o.Cover && (strings.Contains(o.Name, ":block#") || strings.Contains(o.Name, " block#")) {
		budget = 1500 * time.Millisecond
		solvers = []string{"z3-new"}
	}
	res, _ := raceSolvers(file, budget, solvers)
	if res.Verdict != "unsat" && res.Verdict != "sat" && !o.Cover && !o.NoRetry {
		// one retry with a much longer budget: a loaded machine must not turn
		// a slow proof into an alarm
		r2, _ := raceSolvers(file, retryBudget(cfg.Timeout), cfg.Solvers)
		if r2.Verdict == "unsat" || r2.Verdict == "sat" {
			res = r2
		}
	}
	o.Result = res
	o.Backend = res.Solver
	switch {
	case o.Cover && res.Verdict == "sat":
		o.Status = "discharged"
	case o.Cover && res.Verdict == "unsat":
		o.Status = "failed" // vacuous: contradictory assumptions
	case o.Cover:
		o.Status = "inconclusive"
	case res.Verdict == "unsat":
		o.Status = "discharged"
	case res.Verdict == "sat":
		o.Status = "failed"
	default:
		o.Status = "unknown"
	}
	if o.Status != "discharged" && os.Getenv("VC_RELAXED") != "" {
		rq := o.Script.Query(o.Pos, Not(o.Goal), true)
		if o.Extra != "" {
			rq = strings.Replace(rq, "(check-sat)", o.Extra+"\n(check-sat)", 1)
		}
		os.WriteFile(file+".relaxed.smt2", []byte(rq), 0o644)
	}
	if o.Status == "discharged" && os.Getenv("VC_KEEP") == "" {
		os.Remove(file)
	}
}

// retryBudget: second attempt of an undischarged obligation. Generous on
// purpose: an alarm must come from the code, never from a loaded machine.
func retryBudget(first time.Duration) time.Duration {
	if v := os.Getenv("VC_RETRY"); v != "" {
		var n int
		fmt.Sscan(v, &n)
		return time.Duration(n) * time.Second
	}
	b := first * 9
	if b > 6*time.Minute {
		b = 6 * time.Minute
	}
	return b
}
