package main

// Bounded stand-ins: exhaustive runs of the real code against an independent
// specification up to a stated bound. Labelled bounded in the evidence and
// never counted among the discharged obligations.

import (
	"encoding/json"
	"fmt"
	"os"
	"os/exec"
	"path/filepath"
	"regexp"
	"strconv"
	"strings"
)

type harnessSpec struct {
	name    string
	pkg     string // repo-relative package dir
	pkgName string
	files   []string // harness files under /verif/harness/<dir>/
	dir     string
	run     string
	bound   string
}

func runHarness(w *World, verif, tier string, seed int, h harnessSpec) boundedResult {
	res := boundedResult{Name: h.name, Bound: h.bound}
	tmp, err := os.MkdirTemp("", "verif-bounded-")
	if err != nil {
		res.Detail = err.Error()
		return res
	}
	defer os.RemoveAll(tmp)
	pkgDir := filepath.Join(w.repo, h.pkg)
	ov := map[string]map[string]string{"Replace": {}}
	empty := filepath.Join(tmp, "empty_test.go")
	os.WriteFile(empty, []byte("package "+h.pkgName+"\n"), 0o644)
	if ents, err := os.ReadDir(pkgDir); err == nil {
		for _, e := range ents {
			if strings.HasSuffix(e.Name(), "_test.go") {
				ov["Replace"][filepath.Join(pkgDir, e.Name())] = empty
			}
		}
	}
	// the harness sources belong to the checker, not to the output directory
	hroot := filepath.Join(verif, "harness")
	if _, err := os.Stat(filepath.Join(hroot, h.dir)); err != nil {
		if exe, err := os.Executable(); err == nil {
			hroot = filepath.Join(filepath.Dir(filepath.Dir(exe)), "harness")
		}
	}
	for _, f := range h.files {
		src := filepath.Join(hroot, h.dir, f)
		if _, err := os.Stat(src); err != nil {
			res.Detail = "harness source missing: " + src
			return res
		}
		ov["Replace"][filepath.Join(pkgDir, "zz_verif_"+f)] = src
	}
	data, _ := json.Marshal(ov)
	ovFile := filepath.Join(tmp, "ov.json")
	os.WriteFile(ovFile, data, 0o644)
	cmd := exec.Command("go", "test", "-overlay", ovFile, "-vet=off", "-count=1", "-timeout", "900s", "-run", "^"+h.run+"$", "-v", "./"+h.pkg)
	cmd.Dir = w.repo
	cmd.Env = append(os.Environ(), "GOFLAGS=-mod=mod", "GOPROXY=off", "GOSUMDB=off", "GOTOOLCHAIN=local", "VERIF_TIER="+tier, fmt.Sprintf("VERIF_SEED=%d", seed))
	out, _ := cmd.CombinedOutput()
	text := string(out)
	m := regexp.MustCompile(`BOUNDED cases=(\d+) failures=(\d+) exhaustive=(true|false)`).FindStringSubmatch(text)
	var fails []string
	for _, l := range strings.Split(text, "\n") {
		if strings.HasPrefix(l, "BOUNDED-FAIL") {
			fails = append(fails, l)
		}
	}
	if m == nil {
		res.Detail = "harness did not report: " + truncate(text, 1500)
		return res
	}
	res.Cases, _ = strconv.Atoi(m[1])
	nf, _ := strconv.Atoi(m[2])
	res.Exhaustive = m[3] == "true"
	res.Passed = nf == 0 && res.Cases > 0
	if !res.Passed {
		res.Detail = strings.Join(fails, "\n")
		if res.Detail == "" {
			res.Detail = truncate(text, 1500)
		}
	}
	return res
}

const managerBound = "the real loadTasks against an in-memory PostgreSQL stand-in (pgproto3 over net.Pipe): two integration names each absent / enabled / disabled in the file and in the database (81 mixes) x 4 source-reference sets (one source with start and stop, two sources incl. one defined in both file and database, an unknown source, a known plus an unknown source): exactly one task per enabled integration (file wins on a clash) and referenced source, with the source's chain id, batch size and concurrency (file wins) and the reference's start/stop; an unknown source is an error; plus a second family: a file decoded from text and four database rows that differ from one another (source, range incl. stop == start and stop < start, event, missing enabled key, a name that differs from another only in letter case) in 10 subsets/orders, sources setting only batch size or only concurrency: every task has its own integration's source, range, settings and topic filter (independently known Keccak-256 of the declared signature), its own names and chain id in its context, and all destinations of a load decode into pairwise distinct state"

const confdecBound = "the documented configuration keys decoded the way cmd/shovel and config.Integrations do: 54 dashboard switch/password combinations (passwords containing $ inside are literal), 5 start spellings x 8 stop spellings of a source reference (number, quoted, $ENV, absent; stop == start, stop < start, 2^64-1) next to a fully specified source and a second integration, file document and database row, 4 batch-size/concurrency combinations: every value arrives in its own field"

func confdecCheck(w *World, tier string, seed int, verif string) []boundedResult {
	return []boundedResult{runHarness(w, verif, tier, seed, harnessSpec{
		name: "config-decoding", pkg: "shovel/config", pkgName: "config", dir: "confdec", files: []string{"confdec_bounded_test.go"}, run: "TestVerifConfDecBounded",
		bound: confdecBound,
	})}
}

func managerCheck(name string) func(w *World, tier string, seed int, verif string) []boundedResult {
	return func(w *World, tier string, seed int, verif string) []boundedResult {
		return []boundedResult{runHarness(w, verif, tier, seed, harnessSpec{
			name: name, pkg: "shovel", pkgName: "shovel", dir: "manager", files: []string{"fakepg_test.go", "loadtasks_bounded_test.go"}, run: "TestVerifLoadTasksBounded",
			bound: managerBound,
		})}
	}
}

func printSchemaCheck(w *World, tier string, seed int, verif string) []boundedResult {
	return []boundedResult{runHarness(w, verif, tier, seed, harnessSpec{
		name: "printed-definitions", pkg: "cmd/shovel", pkgName: "main", dir: "printschema", files: []string{"printschema_bounded_test.go"}, run: "TestVerifPrintSchemaBounded",
		bound: "cmd/shovel built from the tree under check and run with -print-schema on 6 configurations (two integrations sharing a table with different columns in both orders, a third on its own table, subsets, a file integration on a source that only the database defines): the program starts, and the printed statements executed against a model of 'create table if not exists' (first definition wins) leave every column and unique-key column an integration writes present in its table",
	})}
}

const depsBound = "every assignment of {no reference, reference to A, B or C} to three event inputs and two block fields (4^5 = 1024) x two declaration orders x 3 variants (plain, index already declared, A and B sharing one table) through the real ValidateFix: Dependencies is exactly the set of referenced integrations, each referenced table gets an index on the referenced column, each reference (event input or block field) gets the referenced table's name; two dependents of one integration"

func init() {
	boundedChecks["C07"] = append(boundedChecks["C07"], func(w *World, tier string, seed int, verif string) []boundedResult {
		return []boundedResult{runHarness(w, verif, tier, seed, harnessSpec{
			name: "corrupted-responses", pkg: "dig", pkgName: "dig", dir: "plan", files: []string{"plan_bounded_test.go", "corrupt_bounded_test.go"}, run: "TestVerifCorruptBounded",
			bound: "11 data plans (headers, blocks, receipts, logs, traces and combinations) x ranges 1..3 x single corruptions per RPC method (reorder, duplicate, drop, null result, error member, HTTP 500, HTTP 404/301 with a well-formed body, truncated body, renumbered block, broken parent hash, receipt naming another block, log out of range, logs naming another fork's block hash) against the real jrpc2.Client.Get + row builder: either an error, or complete and correctly placed data; a non-2xx status must always be an error; plus a lagging node whose head lies inside the requested range (11 plans x 3 positions)",
		}), runHarness(w, verif, tier, seed, harnessSpec{
			name: "null-head-poll", pkg: "dig", pkgName: "dig", dir: "plan", files: []string{"nullhead_bounded_test.go"}, run: "TestVerifNullHeadBounded",
			bound: "a node answering the head and hash requests with a null result, a missing result or an error member: Client.Latest, Client.Hash and the background poller started by Latest (5 ms period, several rounds) must report errors; a crash of the poller fails the stand-in",
		})}
	})
	boundedChecks["C13"] = append(boundedChecks["C13"], func(w *World, tier string, seed int, verif string) []boundedResult {
		return []boundedResult{runHarness(w, verif, tier, seed, harnessSpec{
			name: "signature-vs-canon", pkg: "dig", pkgName: "dig", dir: "abi", files: []string{"sig_bounded_test.go"}, run: "TestVerifSigBounded",
			bound: "real Event.Signature vs an independent canonicalisation: 16 elementary/array leaves, 2-component tuples with 7 array suffixes (incl. [][], [2][], [][4], [3][2][]), tuples nested to depth 3, paired into 2-input events; SignatureHash vs the known Keccak-256 of Transfer/Approval; the acceptance gate of the real dig.New + processLog for 61 events with 0..3 indexed inputs (address, uint256[], string, tuple, tuple[]) x logs with 1..5 topics x first topic = / != an independently computed Keccak-256 of the canonical signature: a row iff the hash matches and there is exactly one further topic per indexed input",
		})}
	})
	boundedChecks["C14"] = append(boundedChecks["C14"], func(w *World, tier string, seed int, verif string) []boundedResult {
		return []boundedResult{runHarness(w, verif, tier, seed, harnessSpec{
			name: "plan-all-pairs", pkg: "dig", pkgName: "dig", dir: "plan", files: []string{"plan_bounded_test.go"}, run: "TestVerifPlanBounded",
			bound: "every field name of the row builder (read from the source) alone and in every ordered pair, in tx, log and trace indexing mode, through the real dig.New -> Filter (glf plan) -> jrpc2.Client.Get -> Integration.Insert against a scripted JSON-RPC node with all fields distinct and non-zero; each stored column compared with the node's value; plus 30 ordered pairs of data plans on one shared client; plus 6 data plans x batches of 3 blocks in which the first, the middle, the last, the first two or all blocks have no transactions (an error is accepted for the trace plan: the client rejects an empty trace_block answer); plus batches whose blocks have different numbers of transactions (2,1 / 1,2 / 2,1,2; trace data differ from block to block); thorough tier: plus 1200 seeded random sets of 3..8 fields",
		}), runHarness(w, verif, tier, seed, harnessSpec{
			name: "glf-difference-any", pkg: "shovel/glf", pkgName: "glf", dir: "glf", files: []string{"glf_bounded_test.go"}, run: "TestVerifGLFBounded",
			bound: "real glf.difference and glf.any vs set semantics for all slices of length <= 3 over a 3-letter alphabet (40 slices; difference with two 'others' arguments, the second from the first 14 slices)",
		})}
	})
	boundedChecks["C16"] = append(boundedChecks["C16"], func(w *World, tier string, seed int, verif string) []boundedResult {
		return []boundedResult{runHarness(w, verif, tier, seed, harnessSpec{
			name: "schema-fits-rows", pkg: "shovel/config", pkgName: "config", dir: "schema", files: []string{"schema_bounded_test.go"}, run: "TestVerifSchemaBounded",
			bound: "6 integration shapes (flat log selecting data / an indexed input, uint256[] data, tuple[] with columns inside the components, tx fields, trace fields) x 5 variants (column order, user-supplied identity columns, extra column), every ordered pair sharing one table and on separate tables, through the real ValidateFix + DDL + Migrate (fresh and pre-existing narrower table, in-memory catalogue) + dig.New + Integration.Insert on hand-built blocks (2 blocks x 2 txs x 2 logs / 2 trace actions, identical payloads): written columns exist, unique-key columns exist, rows pairwise distinct on the key, re-insert yields the same keys; pairs with the same number of columns but different names on one table; a column named like each of the 77 reserved key words of PostgreSQL, lower and upper case (the stand-in database refuses an unquoted one); 5 configurations that must be rejected",
		}), runHarness(w, verif, tier, seed, harnessSpec{
			name: "selected-vs-spec", pkg: "dig", pkgName: "dig", dir: "sel", files: []string{"sel_bounded_test.go"}, run: "TestVerifSelectedBounded",
			bound: "real Input.Selected / Event.Selected vs an independent specification for all input trees of depth <= 2 with <= 2 components per node, every selection/indexed pattern (second component thinned to a third at the top level), and a thinned set of two-input events",
		})}
	})
	boundedChecks["C16"] = append(boundedChecks["C16"], printSchemaCheck)
	boundedChecks["C15"] = append(boundedChecks["C15"], func(w *World, tier string, seed int, verif string) []boundedResult {
		return []boundedResult{runHarness(w, verif, tier, seed, harnessSpec{
			name: "dashboard-submission", pkg: "shovel/web", pkgName: "web", dir: "web", files: []string{"save_bounded_test.go"}, run: "TestVerifSaveIntegrationBounded",
			bound: "the real web.SaveIntegration handler with a nil database pool: 11 SQL-text positions of a submitted integration (names, table, column, type, unique, index, notification column, filter references on block fields, inputs and nested components) x 4 hostile strings must be answered with an error before the INSERT is reached; the same submission with a harmless string must reach it (55 cases)",
		})}
	})
	boundedChecks["C15"] = append(boundedChecks["C15"], func(w *World, tier string, seed int, verif string) []boundedResult {
		return []boundedResult{runHarness(w, verif, tier, seed, harnessSpec{
			name: "config-strings-vs-sql-text", pkg: "shovel/config", pkgName: "config", dir: "sqlsafe", files: []string{"sqlsafe_bounded_test.go"}, run: "TestVerifSQLSafeBounded",
			bound: "every string-valued position of a two-integration configuration tree (found by reflection: names, table, columns, types, unique/index lists, notification columns, nested event components with filter references, block fields, sources) x 4 hostile strings x {file path = ValidateFix, dashboard path = CheckUserInput alone}; for each accepted configuration the real DDL, Migrate, dig.New, Integration.Insert (filter references, notifications) and Delete run against a recording connection: the marker must not occur in any SQL text; chain data carrying the marker must not occur either",
		})}
	})
	boundedChecks["C12"] = append(boundedChecks["C12"], func(w *World, tier string, seed int, verif string) []boundedResult {
		return []boundedResult{runHarness(w, verif, tier, seed, harnessSpec{
			name: "pushdown-loses-nothing", pkg: "dig", pkgName: "dig", dir: "plan", files: []string{"plan_bounded_test.go", "pushdown_bounded_test.go"}, run: "TestVerifPushdownBounded",
			bound: "log_addr filter with 4 operators (contains, !contains, eq, ne) x 6 argument sets (either token, both, an unknown address, a 10-byte fragment, upper-case hex) x aggregation and/or/default x 4 second filters on the event value (none, eq matching either transaction, ne), through the real dig.New -> Filter -> jrpc2.Client.Get -> Insert over 2 blocks x 2 transactions with logs from two contracts, once with the scripted node applying the eth_getLogs address restriction and once ignoring it: the stored rows must be equal; a reference filter (contains / !contains) asks the referenced table every time: absent, present, absent, present under one integration object",
		})}
	})
	boundedChecks["C05"] = append(boundedChecks["C05"], func(w *World, tier string, seed int, verif string) []boundedResult {
		return []boundedResult{runHarness(w, verif, tier, seed, harnessSpec{
			name: "dependencies-derivation", pkg: "shovel/config", pkgName: "config", dir: "deps", files: []string{"deps_bounded_test.go"}, run: "TestVerifDepsBounded",
			bound: depsBound,
		})}
	})
	// a reference filter can only be evaluated if ValidateFix resolved its table
	boundedChecks["C12"] = append(boundedChecks["C12"], func(w *World, tier string, seed int, verif string) []boundedResult {
		return []boundedResult{runHarness(w, verif, tier, seed, harnessSpec{
			name: "dependencies-derivation", pkg: "shovel/config", pkgName: "config", dir: "deps", files: []string{"deps_bounded_test.go"}, run: "TestVerifDepsBounded",
			bound: depsBound,
		})}
	})
	boundedChecks["C11"] = append(boundedChecks["C11"], func(w *World, tier string, seed int, verif string) []boundedResult {
		return []boundedResult{runHarness(w, verif, tier, seed, harnessSpec{
			name: "inputs-to-columns", pkg: "dig", pkgName: "dig", dir: "abi", files: []string{"inputs_bounded_test.go"}, run: "TestVerifInputsBounded",
			bound: "a five-input event (three indexed inputs of types address, uint256, bytes32 and two data inputs uint256, address) in three declaration orders x every non-empty subset of selected inputs (93 cases), and a four-input event with a never-selected data input of type uint256[2], address[3], (uint256,address), (uint256[2],bool), string or uint256[] in front of, between or behind the selected data inputs x every non-empty subset of the other three (126 cases), through the real dig.New (setCols) + processLog on a log whose topics and data words all differ: every selected column holds the value of the input it was declared for",
		}), runHarness(w, verif, tier, seed, harnessSpec{
			name: "plan-all-pairs", pkg: "dig", pkgName: "dig", dir: "plan", files: []string{"plan_bounded_test.go"}, run: "TestVerifPlanBounded",
			bound: "every field name of the row builder (read from the source) alone and in every ordered pair, in tx, log and trace indexing mode, through the real dig.New -> Filter -> jrpc2.Client.Get -> Integration.Insert against a scripted JSON-RPC node in which every field of every item (2 transactions, 2 trace actions each) has a distinct non-zero value: each stored column must equal the value of the field it names for that very item; plus 30 ordered pairs of data plans on one shared client; plus batches of 3 with blocks without transactions; thorough tier: plus 1200 seeded random sets of 3..8 fields",
		})}
	})
	boundedChecks["C20"] = append(boundedChecks["C20"], managerCheck("tasks-exactly-configured"), confdecCheck)
	// the range a task runs over and the event it decodes come from the same construction path
	boundedChecks["C06"] = append(boundedChecks["C06"], managerCheck("tasks-exactly-configured"), confdecCheck)
	boundedChecks["C13"] = append(boundedChecks["C13"], managerCheck("tasks-exactly-configured"))
	boundedChecks["C19"] = append(boundedChecks["C19"], confdecCheck)
	// names that differ only in letter case keep their own identity columns (C16);
	// every destination decodes into state of its own (C10)
	boundedChecks["C16"] = append(boundedChecks["C16"], managerCheck("tasks-exactly-configured"))
	boundedChecks["C10"] = append(boundedChecks["C10"], managerCheck("tasks-exactly-configured"))
	// the program starts with a file integration on a source only the database defines
	boundedChecks["C20"] = append(boundedChecks["C20"], printSchemaCheck)
	for _, pid := range []string{"C02", "C01"} {
		boundedChecks[pid] = append(boundedChecks[pid], func(w *World, tier string, seed int, verif string) []boundedResult {
			return []boundedResult{runHarness(w, verif, tier, seed, harnessSpec{
				name: "retry-after-failed-copy", pkg: "dig", pkgName: "dig", dir: "plan", files: []string{"plan_bounded_test.go", "retry_bounded_test.go"}, run: "TestVerifRetryBounded",
				bound: "7 data plans (headers/blocks + logs, blocks/headers + receipts, blocks, receipts, traces; two logs per transaction): Get + Insert with a CopyFrom that fails after reading the rows, then twice more on the same client and integration object over the same range with a healthy connection: each retry stores exactly the rows of a run without the fault",
			})}
		})
	}
	boundedChecks["C04"] = append(boundedChecks["C04"], func(w *World, tier string, seed int, verif string) []boundedResult {
		return []boundedResult{runHarness(w, verif, tier, seed, harnessSpec{
			name: "task-names-agree", pkg: "shovel", pkgName: "shovel", dir: "manager", files: []string{"fakepg_test.go", "loadtasks_bounded_test.go"}, run: "TestVerifLoadTasksBounded",
			bound: "for every task the real loadTasks builds over 81 file/database mixes x 4 source-reference sets: the (source, integration) names in the Task fields, in the context values the row builder stamps rows with, and in every destination are the same pair, and the chain id agrees (324 configurations)",
		})}
	})
	boundedChecks["C17"] = append(boundedChecks["C17"], func(w *World, tier string, seed int, verif string) []boundedResult {
		return []boundedResult{runHarness(w, verif, tier, seed, harnessSpec{
			name: "hex-helpers", pkg: "eth", pkgName: "eth", dir: "hex", files: []string{"hex_bounded_test.go"}, run: "TestVerifHexBounded",
			bound: "DecodeHex against an independent specification for every hex string of length 0..3 (both letter cases, with and without 0x/0X prefix); EncodeHex/DecodeHex round trips for every byte string of length 0..1, a sixteenth of length 2, and seeded random strings of 20..4096 bytes (lower and upper case spelling); EncodeUint64/DecodeUint64 round trips at 13 boundary values and seeded random ones, with padding and upper case; Bytes.MarshalJSON for lengths 0..70: the wire form is \"0x\" + lower-case hex and decoding it into a reused destination gives the same bytes",
		})}
	})
	// a fault at the source must fail the step, not lose or misplace rows (C01), and
	// must not put one item's data under another item (C11); the hash recorded with a
	// position is the hash of the fork the rows came from (C03)
	for _, pid := range []string{"C01", "C11", "C03"} {
		pid := pid
		boundedChecks[pid] = append(boundedChecks[pid], func(w *World, tier string, seed int, verif string) []boundedResult {
			return []boundedResult{runHarness(w, verif, tier, seed, harnessSpec{
				name: "corrupted-responses", pkg: "dig", pkgName: "dig", dir: "plan", files: []string{"plan_bounded_test.go", "corrupt_bounded_test.go"}, run: "TestVerifCorruptBounded",
				bound: "see C07: 11 data plans x ranges 1..3 x single corruptions per RPC method, plus a lagging node: an accepted answer must carry the complete and correctly placed data of every requested block",
			})}
		})
	}
	// integrations with different log filters sharing the cached blocks of one client
	for _, pid := range []string{"C08", "C04", "C12", "C13", "C01", "C07", "C02"} {
		pid := pid
		boundedChecks[pid] = append(boundedChecks[pid], func(w *World, tier string, seed int, verif string) []boundedResult {
			return []boundedResult{runHarness(w, verif, tier, seed, harnessSpec{
				name: "shared-client-log-filters", pkg: "dig", pkgName: "dig", dir: "plan", files: []string{"plan_bounded_test.go", "sharedlogs_bounded_test.go"}, run: "TestVerifSharedLogsBounded",
				bound: "every transaction emits two logs from two contracts; four integrations (eth_getLogs restricted to the first contract, to the second, unrestricted, and one taking its logs from the receipts) x {headers + logs, blocks + logs} plans on ONE client in 15 request orders (ABA, BAB, ABUAB, UAB, BUA, AUB, AR, BRA, RAB, ABR, RR, ARR, UR, URU, URR; the receipts reader also reports the receipt status), plus 8 interleavings (one loads, another loads the same range, the first inserts) over 2 blocks x 2 transactions, the node applying the address restriction: every request stores exactly what an uncached client gives that integration, which is what the node reports for it",
			})}
		})
	}
	// what a block contributes to the table (C01/C02 treat it as "the rows of block n"):
	// the same stand-ins that decide it for C11/C12/C14
	// cached answers must be the answers of an uncached client: the shared-client
	// scenarios of the all-pairs stand-in (different plans, different lengths on one client)
	for _, pid := range []string{"C06", "C08", "C04", "C05", "C12", "C13"} {
		pid := pid
		boundedChecks[pid] = append(boundedChecks[pid], func(w *World, tier string, seed int, verif string) []boundedResult {
			return []boundedResult{runHarness(w, verif, tier, seed, harnessSpec{
				name: "plan-all-pairs", pkg: "dig", pkgName: "dig", dir: "plan", files: []string{"plan_bounded_test.go"}, run: "TestVerifPlanBounded",
				bound: "see C14; relevant here: 30 ordered pairs of data plans on one shared client (twice each) and, per plan, requests for the same first block with lengths (2,1,2), (1,2,1), (3,2,3) on one client: every answer must be what an uncached client would deliver (row counts and every stored value) - for C04: what one (source, integration) pair left in the shared client must not change the rows of another pair; for C05: a request for k blocks returns exactly k blocks (the dependency bound is enforced through the size of the request)",
			})}
		})
	}
	for _, pid := range []string{"C01", "C02", "C05", "C03"} {
		pid := pid
		boundedChecks[pid] = append(boundedChecks[pid], func(w *World, tier string, seed int, verif string) []boundedResult {
			return []boundedResult{runHarness(w, verif, tier, seed, harnessSpec{
				name: "pushdown-loses-nothing", pkg: "dig", pkgName: "dig", dir: "plan", files: []string{"plan_bounded_test.go", "pushdown_bounded_test.go"}, run: "TestVerifPushdownBounded",
				bound: "see C12: 432 filter configurations, the scripted node applying vs ignoring the eth_getLogs address restriction: the rows stored for a block are the same; a reference filter asks the referenced table every time (the table changes 4 times under one integration object)",
			})}
		})
	}
	boundedChecks["C09"] = append(boundedChecks["C09"], func(w *World, tier string, seed int, verif string) []boundedResult {
		return []boundedResult{runHarness(w, verif, tier, seed, harnessSpec{
			name: "abi-decode-vs-spec", pkg: "dig", pkgName: "dig", dir: "abi", files: []string{"abi_bounded_test.go"}, run: "TestVerifABIBounded",
			bound: "real Event.ABIType + Result.Scan vs an independent ABI encoder and row-rule spec: 28 field shapes (uint256, bytes, T[], T[2], T[3], T[12], tuples, arrays of tuples, nested arrays, tuples with arrays; selected and unselected leaves), all 1- and 2-field events (thorough: a fifth of the 3-field ones), 4 value variants (array lengths 0,1,2,4; byte lengths 0,1,32,33), each decoded twice on one decoder instance, exact-capacity inputs",
		})}
	})
}
