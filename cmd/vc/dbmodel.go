package main

// Ghost database for the indexing protocol (C01-C06) and the assumed
// contracts of its environment: pgx transactions, wpg.Conn statements (given
// relational semantics by parsing the SQL constants of the real code), the
// block Source and the Destination.
//
// Ghost state of the task's own (source, integration) pair:
//   cur  : Array BV64 Bool   cursor rows (recorded positions)
//   hash : Array BV64 HashV  hash recorded with a cursor row
//   rows : Array BV64 Int    how many times the rows of block n are present
// in three copies: D_* committed, W_* working copy of the open transaction,
// V_* the view behind a wpg.Conn parameter of a function verified on its own.

import (
	"fmt"
	"go/constant"
	"go/types"
	"os"
	"regexp"
	"sort"
	"strings"

	"golang.org/x/tools/go/ssa"
)

const (
	sCur  = Sort("(Array (_ BitVec 64) Bool)")
	sHash = Sort("(Array (_ BitVec 64) HashV)")
	sRows = Sort("(Array (_ BitVec 64) Int)")
)

const dbPreamble = `(declare-sort HashV 0)
(declare-fun hashOf ((Array Int (Array (_ BitVec 64) (_ BitVec 8))) Slice) HashV)
(declare-fun parentH (HashV) HashV)
(assert (forall ((h (Array Int (Array (_ BitVec 64) (_ BitVec 8)))) (a Slice) (b Slice)) (! (= (bytes.eq h a b) (= (hashOf h a) (hashOf h b))) :pattern ((bytes.eq h a b)))))`

func (x *Exec) useDB() {
	x.bytesEq(&State{heaps: map[string]Term{}}, nilSlice, nilSlice) // make sure bytes.eq is declared first
	x.sc.Decl("db", dbPreamble)
	x.globalByName("github.com/jackc/pgx/v5", "ErrNoRows") // a sentinel: database failures are never this value
}

type rowResult struct {
	found Term
	cols  []string
	vals  []Term
	fail  Term
}

func (x *Exec) dbMode() string {
	if x.topC == nil {
		return ""
	}
	if x.topC.Opts["ghost"] == "db" {
		return "db"
	}
	if x.topC.Opts["conn"] != "" {
		return "view"
	}
	return ""
}

func (x *Exec) initGhost(st *State) {
	switch x.dbMode() {
	case "db":
		x.useDB()
		for _, n := range []string{"cur", "hash", "rows"} {
			srt := map[string]Sort{"cur": sCur, "hash": sHash, "rows": sRows}[n]
			d := x.sc.Fresh("D_"+n, srt)
			st.ghost["D_"+n] = d
			st.ghost["W_"+n] = d
		}
		st.ghost["txOpen"] = TFalse
		st.ghost["curTx"] = Term{"inil", SIface}
		st.ghost["nCommits"] = IntConst(0)
	case "view":
		x.useDB()
		for _, n := range []string{"cur", "hash", "rows"} {
			srt := map[string]Sort{"cur": sCur, "hash": sHash, "rows": sRows}[n]
			st.ghost["V_"+n] = x.sc.Fresh("V_"+n, srt)
		}
	}
	if x.dbMode() != "" {
		// dependencies: positions of the referenced integrations (read-only for this task)
		st.ghost["depAll"] = x.sc.Fresh("depAllStarted", SBool)   // every referenced integration has a recorded position
		st.ghost["depSome"] = x.sc.Fresh("depSomeStarted", SBool) // at least one has
		st.ghost["depMin"] = x.sc.Fresh("depMinPos", SBV64)       // min over ALL referenced integrations of their latest position (meaningful when depAll)
		st.ghost["depMinStarted"] = x.sc.Fresh("depMinStartedPos", SBV64)
		x.sc.Assume(Implies(st.ghost["depAll"], And(st.ghost["depSome"], Eq(st.ghost["depMin"], st.ghost["depMinStarted"]))))
	}
}

// view returns the prefix of the ghost arrays a statement on conn acts on.
func (x *Exec) view(st *State, conn Term) string {
	switch x.dbMode() {
	case "view":
		return "V_"
	case "db":
		if cur, ok := st.ghost["curTx"]; ok && cur.S == conn.S {
			return "W_"
		}
		return "D_" // not the open transaction: autocommit on the pool
	}
	return ""
}

// ---------------------------------------------------------------------------
// helpers over SSA: variadic arguments before boxing

func varargValues(v ssa.Value) []ssa.Value {
	sl, ok := v.(*ssa.Slice)
	if !ok {
		if c, ok := v.(*ssa.Const); ok && c.Value == nil {
			return []ssa.Value{}
		}
		return nil
	}
	al, ok := sl.X.(*ssa.Alloc)
	if !ok {
		return nil
	}
	arr, ok := al.Type().Underlying().(*types.Pointer).Elem().Underlying().(*types.Array)
	if !ok {
		return nil
	}
	out := make([]ssa.Value, arr.Len())
	for _, ref := range *al.Referrers() {
		ia, ok := ref.(*ssa.IndexAddr)
		if !ok {
			continue
		}
		c, ok := ia.Index.(*ssa.Const)
		if !ok {
			return nil
		}
		idx, _ := constant.Int64Val(c.Value)
		for _, r2 := range *ia.Referrers() {
			if st, ok := r2.(*ssa.Store); ok {
				val := st.Val
				if mi, ok := val.(*ssa.MakeInterface); ok {
					val = mi.X
				}
				if ci, ok := val.(*ssa.ChangeInterface); ok {
					val = ci.X
				}
				out[idx] = val
			}
		}
	}
	for _, o := range out {
		if o == nil {
			return nil
		}
	}
	return out
}

// sqlText resolves the SQL text of a statement argument: a constant, or
// fmt.Sprintf with a constant format (placeholders become __arg<k>__).
func sqlText(v ssa.Value) (string, []ssa.Value, bool) {
	if s, ok := constStr(v); ok {
		return s, nil, true
	}
	if call, ok := v.(*ssa.Call); ok {
		if fn, ok := call.Call.Value.(*ssa.Function); ok && fn.String() == "fmt.Sprintf" {
			if f, ok := constStr(call.Call.Args[0]); ok {
				args := varargValues(call.Call.Args[1])
				k := 0
				out := regexp.MustCompile(`%[svdq]`).ReplaceAllStringFunc(f, func(string) string {
					k++
					return fmt.Sprintf("__arg%d__", k)
				})
				return out, args, true
			}
		}
	}
	return "", nil, false
}

// ---------------------------------------------------------------------------
// mini SQL

type sqlStmt struct {
	kind    string // insert delete select unknown
	table   string
	cols    []string // insert columns / select columns
	params  []int    // insert: parameter index per column
	conds   []sqlCond
	orderBy string
	desc    bool
	limit1  bool
	text    string
}

type sqlCond struct {
	col   string
	op    string
	param int
	any   bool
}

func normSQL(s string) string {
	return strings.ToLower(strings.Join(strings.Fields(s), " "))
}

var (
	reInsert = regexp.MustCompile(`^insert into ([a-z0-9_.]+) \(([^)]*)\) values \(([^)]*)\);?$`)
	reDelete = regexp.MustCompile(`^delete from ([a-z0-9_.]+) where (.*?);?$`)
	reSelect = regexp.MustCompile(`^select (.*?) from ([a-z0-9_.]+) where (.*?) order by ([a-z0-9_]+)( asc| desc)? limit 1;?$`)
	reCond   = regexp.MustCompile(`^([a-z0-9_]+) ?(>=|<=|<>|!=|=|>|<) ?(any\()?\$([0-9]+)\)?$`)
)

func parseSQL(text string) *sqlStmt {
	n := normSQL(text)
	st := &sqlStmt{kind: "unknown", text: n}
	if m := reInsert.FindStringSubmatch(n); m != nil {
		st.kind, st.table = "insert", m[1]
		cols := strings.Split(m[2], ",")
		vals := strings.Split(m[3], ",")
		if len(cols) != len(vals) {
			st.kind = "unknown"
			return st
		}
		for i := range cols {
			st.cols = append(st.cols, strings.TrimSpace(cols[i]))
			var k int
			if _, err := fmt.Sscanf(strings.TrimSpace(vals[i]), "$%d", &k); err != nil {
				st.kind = "unknown"
				return st
			}
			st.params = append(st.params, k)
		}
		return st
	}
	parseConds := func(s string) ([]sqlCond, bool) {
		var out []sqlCond
		for _, c := range strings.Split(s, " and ") {
			m := reCond.FindStringSubmatch(strings.TrimSpace(c))
			if m == nil {
				return nil, false
			}
			var k int
			fmt.Sscanf(m[4], "%d", &k)
			out = append(out, sqlCond{col: m[1], op: m[2], param: k, any: m[3] != ""})
		}
		return out, true
	}
	if m := reSelect.FindStringSubmatch(n); m != nil {
		conds, ok := parseConds(m[3])
		if !ok {
			return st
		}
		st.kind, st.table, st.conds = "select", m[2], conds
		for _, c := range strings.Split(m[1], ",") {
			st.cols = append(st.cols, strings.TrimSpace(c))
		}
		st.orderBy, st.desc, st.limit1 = m[4], strings.TrimSpace(m[5]) == "desc", true
		return st
	}
	if m := reDelete.FindStringSubmatch(n); m != nil {
		conds, ok := parseConds(m[2])
		if !ok {
			return st
		}
		st.kind, st.table, st.conds = "delete", m[1], conds
		return st
	}
	return st
}

// the dependency query is outside the parsed subset: bound by normalised text
const depQueryText = "with latest as ( select distinct on (ig_name) ig_name, num, hash from shovel.task_updates where src_name = $1 and ig_name = any($2) order by ig_name, num desc ) select num, hash from latest order by num asc limit 1;"

// ---------------------------------------------------------------------------
// pair identity of the function under verification

func (x *Exec) pairTerms(st *State) (src, ig Term, ok bool) {
	if x.pairSrc.S != "" {
		return x.pairSrc, x.pairIg, true
	}
	top := x.topFrame
	if top == nil || x.topC == nil {
		return Term{}, Term{}, false
	}
	spec := x.topC.Opts["pair"]
	if spec == "" {
		return Term{}, Term{}, false
	}
	parts := strings.Split(spec, ",")
	if len(parts) != 2 {
		return Term{}, Term{}, false
	}
	env := x.contractEnv(top, top.entry)
	var ts [2]Term
	for i, p := range parts {
		e, err := parseCExpr(p)
		if err != nil {
			x.unsupported("pair option: " + err.Error())
			return Term{}, Term{}, false
		}
		cv, err := x.eval(env, e)
		if err != nil {
			x.unsupported("pair option: " + err.Error())
			return Term{}, Term{}, false
		}
		ts[i] = x.cvTerm(cv, nil)
	}
	x.pairSrc, x.pairIg = ts[0], ts[1]
	return ts[0], ts[1], true
}

func cmpBV(op string, a, b Term) Term {
	switch op {
	case ">=":
		return App(SBool, "bvuge", a, b)
	case ">":
		return App(SBool, "bvugt", a, b)
	case "<=":
		return App(SBool, "bvule", a, b)
	case "<":
		return App(SBool, "bvult", a, b)
	case "=":
		return Eq(a, b)
	case "<>", "!=":
		return Not(Eq(a, b))
	}
	return TFalse
}

func (x *Exec) dbFail(st *State, what string) (Term, Term) {
	fail := x.sc.Fresh("dbfail_"+what, SBool)
	e := x.freshError(st, "db_"+what)
	// a database error is not one of the protocol's sentinel errors
	x.assume(st, T(SBool, "(forall ((t Iface)) (! (= (wraps %s t) false) :pattern ((wraps %s t))))", e.S, e.S))
	return fail, e
}

// checkPair emits the isolation obligations for a statement: the conjuncts /
// columns src_name and ig_name must be present and bound to the task's own pair.
func (x *Exec) checkPair(cs *callSite, what string, srcArg, igArg *Val, haveSrc, haveIg bool) {
	st := cs.st
	src, ig, ok := x.pairTerms(st)
	if !ok {
		x.unsupported("statement on the cursor/integration tables in a function without a pair= option")
		return
	}
	name := x.oblName(cs.fr, "sql-pair["+what+"]", cs.pos)
	if !haveSrc || !haveIg {
		x.check(st, "frame", name, TFalse, []string{"C04", "C03"}, "statement is not restricted to the task's own (src_name, ig_name) pair", x.pos(cs.pos))
		return
	}
	x.check(st, "frame", name+".src", Eq(x.term(srcArg), src), []string{"C04", "C03"}, "src_name parameter is the task's own source name", x.pos(cs.pos))
	x.check(st, "frame", name+".ig", Eq(x.term(igArg), ig), []string{"C04", "C03"}, "ig_name parameter is the task's own integration name", x.pos(cs.pos))
}

// execSQL applies the effect of a modifying statement to the ghost view.
func (x *Exec) execSQL(cs *callSite, conn Term, stmt *sqlStmt, args []*Val, argTypes []types.Type) Term {
	st := cs.st
	v := x.view(st, conn)
	fail, ferr := x.dbFail(st, stmt.kind)
	argOf := func(k int) *Val {
		if k-1 < len(args) && k >= 1 {
			return args[k-1]
		}
		return nil
	}
	apply := func(name string, nv Term) {
		old := st.ghost[v+name]
		st.ghost[v+name] = x.choose(v+name, fail, old, nv)
	}
	isCursor := stmt.table == "shovel.task_updates"
	switch stmt.kind {
	case "insert":
		if !isCursor {
			x.unsupported("insert into " + stmt.table)
			break
		}
		col := map[string]*Val{}
		for i, c := range stmt.cols {
			col[c] = argOf(stmt.params[i])
		}
		x.checkPair(cs, "insert", col["src_name"], col["ig_name"], col["src_name"] != nil, col["ig_name"] != nil)
		num, hash := col["num"], col["hash"]
		if num == nil || hash == nil {
			x.check(st, "sql", x.oblName(cs.fr, "sql-insert-cols", cs.pos), TFalse, []string{"C01", "C02"}, "cursor insert without num/hash columns", x.pos(cs.pos))
			break
		}
		n := x.term(num)
		hv := App("HashV", "hashOf", x.heap(st, SBV8), x.term(hash))
		apply("cur", Store(st.ghost[v+"cur"], n, TTrue))
		apply("hash", Store(st.ghost[v+"hash"], n, hv))
	case "delete":
		var srcA, igA *Val
		var pred []sqlCond
		for _, c := range stmt.conds {
			switch c.col {
			case "src_name":
				if c.op == "=" {
					srcA = argOf(c.param)
				}
			case "ig_name":
				if c.op == "=" {
					igA = argOf(c.param)
				}
			default:
				pred = append(pred, c)
			}
		}
		x.checkPair(cs, "delete", srcA, igA, srcA != nil, igA != nil)
		keyCol, arr := "num", "cur"
		if !isCursor {
			keyCol, arr = "block_num", "rows"
		}
		m := Term{"m", SBV64}
		var conds []Term
		for _, c := range pred {
			if c.col != keyCol || argOf(c.param) == nil {
				x.check(st, "sql", x.oblName(cs.fr, "sql-delete-cond", cs.pos), TFalse, []string{"C03"}, "delete predicate on an unexpected column: "+c.col, x.pos(cs.pos))
				continue
			}
			conds = append(conds, cmpBV(c.op, m, x.term(argOf(c.param))))
		}
		hit := And(conds...)
		old := st.ghost[v+arr]
		nv := x.sc.Fresh(v+arr+"_del", old.Sort)
		zero := "false"
		if arr == "rows" {
			zero = "0"
		}
		x.sc.Assume(T(SBool, "(forall ((m (_ BitVec 64))) (! (= (select %s m) (ite %s %s (select %s m))) :pattern ((select %s m))))", nv.S, hit.S, zero, old.S, nv.S))
		apply(arr, nv)
	default:
		x.check(st, "sql", x.oblName(cs.fr, "sql-unparsed", cs.pos), TFalse, []string{"C02"}, "statement outside the parsed SQL subset: "+truncate(stmt.text, 80), x.pos(cs.pos))
	}
	// a statement outside the open transaction changes the committed state at once
	if v == "D_" {
		x.commitObligations(cs, "autocommit")
	}
	return x.sc.Define("exec_err", Ite(fail, ferr, Term{"inil", SIface}))
}

// querySQL evaluates a select on the ghost view.
func (x *Exec) querySQL(cs *callSite, conn Term, stmt *sqlStmt, args []*Val) *rowResult {
	st := cs.st
	v := x.view(st, conn)
	fail, _ := x.dbFail(st, "query")
	res := &rowResult{fail: fail}
	argOf := func(k int) *Val {
		if k-1 < len(args) && k >= 1 {
			return args[k-1]
		}
		return nil
	}
	if stmt.kind == "unknown" && stmt.text == depQueryText {
		// text-bound semantics (assumed): the smallest of the newest positions of the
		// referenced integrations THAT HAVE ROWS; no row when none has
		x.assumeNote("dependency query bound by normalised text to: min over referenced integrations with rows of their newest position; no row if none has rows")
		if a := argOf(1); a != nil {
			src, _, ok := x.pairTerms(st)
			if ok {
				x.check(st, "frame", x.oblName(cs.fr, "sql-pair[dep].src", cs.pos), Eq(x.term(a), src), []string{"C05"}, "dependency query restricted to the task's own source", x.pos(cs.pos))
			}
		}
		res.found = st.ghost["depSome"]
		res.cols = []string{"num", "hash"}
		res.vals = []Term{st.ghost["depMinStarted"], x.sc.Fresh("dephash", "HashV")}
		return res
	}
	if stmt.kind != "select" || stmt.table != "shovel.task_updates" {
		x.check(st, "sql", x.oblName(cs.fr, "sql-unparsed", cs.pos), TFalse, []string{"C02"}, "query outside the parsed SQL subset: "+truncate(stmt.text, 80), x.pos(cs.pos))
		res.found = x.sc.Fresh("found", SBool)
		return res
	}
	var srcA, igA *Val
	for _, c := range stmt.conds {
		switch c.col {
		case "src_name":
			srcA = argOf(c.param)
		case "ig_name":
			igA = argOf(c.param)
		default:
			x.check(st, "sql", x.oblName(cs.fr, "sql-select-cond", cs.pos), TFalse, []string{"C06"}, "unexpected select predicate on "+c.col, x.pos(cs.pos))
		}
	}
	x.checkPair(cs, "select", srcA, igA, srcA != nil, igA != nil)
	cur := st.ghost[v+"cur"]
	found := x.sc.Fresh("found", SBool)
	pick := x.sc.Fresh("picked", SBV64)
	x.sc.Assume(Eq(found, T(SBool, "(exists ((m (_ BitVec 64))) (select %s m))", cur.S)))
	cmp := "bvule"
	if !stmt.desc {
		cmp = "bvuge"
	}
	if stmt.orderBy != "num" {
		x.check(st, "sql", x.oblName(cs.fr, "sql-order", cs.pos), TFalse, []string{"C06"}, "unexpected order by "+stmt.orderBy, x.pos(cs.pos))
	}
	x.sc.Assume(Implies(found, And(Select(cur, pick), T(SBool, "(forall ((m (_ BitVec 64))) (! (=> (select %s m) (%s m %s)) :pattern ((select %s m))))", cur.S, cmp, pick.S, cur.S))))
	res.found = found
	for _, c := range stmt.cols {
		switch c {
		case "num":
			res.cols = append(res.cols, "num")
			res.vals = append(res.vals, pick)
		case "hash":
			res.cols = append(res.cols, "hash")
			res.vals = append(res.vals, Select(st.ghost[v+"hash"], pick))
		default:
			res.cols = append(res.cols, c)
			res.vals = append(res.vals, Term{})
		}
	}
	return res
}

// ---------------------------------------------------------------------------
// protocol invariant at every point where the committed state changes

// Inv parts over a view prefix (D_ or W_), as named obligations.
func (x *Exec) invParts(st *State, v string) map[string]Term {
	cur, rows := st.ghost[v+"cur"], st.ghost[v+"rows"]
	// rowsBelowTop: a stored block lies at or below some recorded position
	p1 := T(SBool, "(forall ((n (_ BitVec 64))) (! (=> (not (= (select %s n) 0)) (exists ((c (_ BitVec 64))) (and (select %s c) (bvule n c)))) :pattern ((select %s n))))", rows.S, cur.S, rows.S)
	// once: no block's rows are present twice
	p2 := T(SBool, "(forall ((n (_ BitVec 64))) (! (and (<= 0 (select %s n)) (<= (select %s n) 1)) :pattern ((select %s n))))", rows.S, rows.S, rows.S)
	return map[string]Term{"rows-not-above-position": p1, "rows-at-most-once": p2}
}

func (x *Exec) commitObligations(cs *callSite, what string) {
	st := cs.st
	if x.dbMode() != "db" {
		return
	}
	v := "W_"
	if what == "autocommit" {
		v = "D_"
	}
	parts := x.invParts(st, v)
	var names []string
	for n := range parts {
		names = append(names, n)
	}
	sort.Strings(names)
	base := x.oblName(cs.fr, what, cs.pos)
	for _, n := range names {
		x.check(st, "commit-inv", base+":"+n, parts[n], []string{"C01", "C02", "C03"}, "state published by this "+what+" satisfies Inv("+n+")", x.pos(cs.pos))
	}
	// user-stated commit assertions of the contract (keyed by kind "commit")
	if x.topFrame != nil && x.topFrame.c != nil {
		if what == "commit" {
			x.nCommitSites++
		}
		for i, cl := range x.topFrame.c.Clauses {
			if cl.Kind != "commit" {
				continue
			}
			if cl.Loop != 0 && (what != "commit" || cl.Loop != x.nCommitSites) {
				continue
			}
			env := x.contractEnv(x.topFrame, st)
			for k, val := range x.topFrame.names {
				_ = k
				_ = val
			}
			x.bindLiveNames(env, cs.fr, st)
			parts := conjuncts(cl.Expr)
			for pi, pe := range parts {
				t, err := x.evalBool(env, pe)
				if err != nil {
					x.unsupported("commit clause: " + err.Error())
					continue
				}
				nm := fmt.Sprintf("%s:clause#%d", base, i)
				if cl.Name != "" {
					nm = fmt.Sprintf("%s:[%s]", base, cl.Name)
				}
				x.check(st, "commit-inv", partName(nm, pi, len(parts)), t, clauseProps(x.topFrame, cl), cl.Text, x.pos(cs.pos))
			}
		}
	}
}

// bindLiveNames exposes source-level variables (phis and named cells) that
// dominate the current instruction to a contract environment.
func (x *Exec) bindLiveNames(env *CEnv, fr *Frame, st *State) {
	for v, val := range fr.env {
		if phi, ok := v.(*ssa.Phi); ok && phi.Comment != "" {
			if _, exists := env.vars[phi.Comment]; !exists {
				env.vars[phi.Comment] = x.cvOfVal(val)
			}
		}
	}
}

// ---------------------------------------------------------------------------
// registration

func registerDBModels() {
	// transactions
	libModels["(*github.com/jackc/pgx/v5/pgxpool.Pool).Begin"] = func(x *Exec, cs *callSite) *Val {
		st := cs.st
		fail, ferr := x.dbFail(st, "begin")
		tx := x.sc.Fresh("tx", SIface)
		x.assume(st, Implies(Not(fail), Not(Eq(tx, Term{"inil", SIface}))))
		if x.dbMode() == "db" {
			x.check(st, "tx", x.oblName(cs.fr, "begin-while-open", cs.pos), Not(st.ghost["txOpen"]), []string{"C02"}, "a transaction is begun while another is still open", x.pos(cs.pos))
			for _, n := range []string{"cur", "hash", "rows"} {
				st.ghost["W_"+n] = st.ghost["D_"+n]
			}
			st.ghost["txOpen"] = x.sc.Define("txOpen", Not(fail))
			st.ghost["curTx"] = tx
		}
		tup := cs.res.(*types.Tuple)
		return &Val{Ty: tup, Tuple: []*Val{{T: tx, Ty: tup.At(0).Type()}, {T: x.sc.Define("begin_err", Ite(fail, ferr, Term{"inil", SIface})), Ty: errorType}}}
	}
	libMods["(*github.com/jackc/pgx/v5/pgxpool.Pool).Begin"] = func(x *Exec, m *modSet, _ *ssa.Function) {
		for _, g := range []string{"W_cur", "W_hash", "W_rows", "txOpen", "curTx"} {
			m.ghost[g] = true
		}
	}
	ifaceModels["github.com/jackc/pgx/v5.Tx.Commit"] = func(x *Exec, cs *callSite) *Val {
		st := cs.st
		fail, ferr := x.dbFail(st, "commit")
		if x.dbMode() == "db" {
			isCur := st.ghost["curTx"].S == x.term(cs.recv).S
			if !isCur {
				x.check(st, "tx", x.oblName(cs.fr, "commit-foreign-tx", cs.pos), TFalse, []string{"C02"}, "commit on a transaction that is not the current one", x.pos(cs.pos))
			}
			x.check(st, "tx", x.oblName(cs.fr, "commit-closed", cs.pos), st.ghost["txOpen"], []string{"C02"}, "commit on a closed transaction", x.pos(cs.pos))
			x.commitObligations(cs, "commit")
			for _, n := range []string{"cur", "hash", "rows"} {
				st.ghost["D_"+n] = x.choose("D_"+n, fail, st.ghost["D_"+n], st.ghost["W_"+n])
			}
			st.ghost["txOpen"] = TFalse
			st.ghost["nCommits"] = x.sc.Define("nCommits", App(SInt, "+", st.ghost["nCommits"], Ite(fail, IntConst(0), IntConst(1))))
		}
		x.assumeNote("pgx.Tx.Commit: on success the working copy becomes the committed state atomically; on error nothing is committed")
		return &Val{T: x.sc.Define("commit_err", Ite(fail, ferr, Term{"inil", SIface})), Ty: errorType}
	}
	ifaceMods["github.com/jackc/pgx/v5.Tx.Commit"] = func(x *Exec, m *modSet) {
		for _, g := range []string{"D_cur", "D_hash", "D_rows", "txOpen", "nCommits"} {
			m.ghost[g] = true
		}
	}
	ifaceModels["github.com/jackc/pgx/v5.Tx.Rollback"] = func(x *Exec, cs *callSite) *Val {
		st := cs.st
		if x.dbMode() == "db" {
			if st.ghost["curTx"].S == x.term(cs.recv).S {
				st.ghost["txOpen"] = TFalse
			}
		}
		return &Val{T: x.sc.Fresh("rollback_err", SIface), Ty: errorType}
	}
	ifaceMods["github.com/jackc/pgx/v5.Tx.Rollback"] = func(x *Exec, m *modSet) { m.ghost["txOpen"] = true }

	// statements
	connExec := func(x *Exec, cs *callSite) *Val {
		st := cs.st
		if x.dbMode() == "" {
			x.assumeNote("wpg.Conn.Exec outside a ghost-database context: effect not modelled")
			tup := cs.res.(*types.Tuple)
			return &Val{Ty: tup, Tuple: []*Val{x.freshVal(st, "cmdtag", tup.At(0).Type()), {T: x.sc.Fresh("exec_err", SIface), Ty: errorType}}}
		}
		text, _, ok := sqlText(cs.cc.Args[1])
		tup := cs.res.(*types.Tuple)
		tag := x.freshVal(st, "cmdtag", tup.At(0).Type())
		if !ok {
			x.check(st, "sql", x.oblName(cs.fr, "sql-dynamic", cs.pos), TFalse, []string{"C02"}, "SQL text is not a constant", x.pos(cs.pos))
			return &Val{Ty: tup, Tuple: []*Val{tag, {T: x.sc.Fresh("exec_err", SIface), Ty: errorType}}}
		}
		raw := varargValues(cs.cc.Args[2])
		if raw == nil {
			x.unsupported("Exec arguments not statically resolvable")
		}
		var args []*Val
		var tys []types.Type
		for _, r := range raw {
			args = append(args, x.val(cs.fr, r))
			tys = append(tys, r.Type())
		}
		err := x.execSQL(cs, x.term(cs.recv), parseSQL(text), args, tys)
		return &Val{Ty: tup, Tuple: []*Val{tag, {T: err, Ty: errorType}}}
	}
	connQueryRow := func(x *Exec, cs *callSite) *Val {
		st := cs.st
		row := x.sc.Fresh("row", SIface)
		x.assume(st, Not(Eq(row, Term{"inil", SIface})))
		if x.dbMode() == "" {
			return &Val{T: row, Ty: cs.res}
		}
		text, _, ok := sqlText(cs.cc.Args[1])
		if !ok {
			x.check(st, "sql", x.oblName(cs.fr, "sql-dynamic", cs.pos), TFalse, []string{"C02"}, "SQL text is not a constant", x.pos(cs.pos))
			return &Val{T: row, Ty: cs.res}
		}
		raw := varargValues(cs.cc.Args[2])
		if raw == nil {
			x.unsupported("QueryRow arguments not statically resolvable")
		}
		var args []*Val
		for _, r := range raw {
			args = append(args, x.val(cs.fr, r))
		}
		x.rowResults[row.S] = x.querySQL(cs, x.term(cs.recv), parseSQL(text), args)
		return &Val{T: row, Ty: cs.res}
	}
	for _, it := range []string{"github.com/indexsupply/shovel/wpg.Conn", "github.com/jackc/pgx/v5.Tx"} {
		ifaceModels[it+".Exec"] = connExec
		ifaceModels[it+".QueryRow"] = connQueryRow
		ifaceMods[it+".Exec"] = func(x *Exec, m *modSet) {
			for _, g := range []string{"D_cur", "D_hash", "D_rows", "W_cur", "W_hash", "W_rows", "V_cur", "V_hash", "V_rows"} {
				m.ghost[g] = true
			}
			m.alloc = true
		}
		ifaceMods[it+".QueryRow"] = func(x *Exec, m *modSet) {}
	}
	ifaceModels["github.com/jackc/pgx/v5.Row.Scan"] = func(x *Exec, cs *callSite) *Val {
		st := cs.st
		rr := x.rowResults[x.term(cs.recv).S]
		if rr == nil {
			x.assumeNote("pgx.Row.Scan on a row of unknown origin writes unconstrained values to its destinations only")
			if dests := varargValues(cs.cc.Args[0]); dests != nil {
				for _, d := range dests {
					if pt, ok := d.Type().Underlying().(*types.Pointer); ok {
						loc := x.derefLoc(st, x.val(cs.fr, d), pt.Elem(), cs.pos, "scan")
						x.store(st, loc, x.freshVal(st, "scanned", pt.Elem()).T)
					}
				}
			} else {
				x.havocAll(st, "scan")
			}
			return &Val{T: x.sc.Fresh("scan_err", SIface), Ty: errorType}
		}
		dests := varargValues(cs.cc.Args[0])
		if dests == nil {
			x.unsupported("Scan destinations not statically resolvable")
			return &Val{T: x.sc.Fresh("scan_err", SIface), Ty: errorType}
		}
		okc := x.sc.Define("scan_ok", And(Not(rr.fail), rr.found))
		for i, d := range dests {
			if i >= len(rr.vals) {
				break
			}
			pv := x.val(cs.fr, d)
			pt, ok := d.Type().Underlying().(*types.Pointer)
			if !ok {
				continue
			}
			loc := x.derefLoc(st, pv, pt.Elem(), cs.pos, "scan")
			old := x.load(st, loc)
			var nv Term
			switch rr.cols[i] {
			case "num":
				nv = rr.vals[i]
			case "hash":
				// a fresh byte slice whose content is the stored hash
				b := x.makeSliceRaw(st, types.Typ[types.Uint8], x.sc.Fresh("hashlen", SBV64), x.sc.Fresh("hashcap", SBV64), false)
				x.assume(st, x.typeInv(b, types.NewSlice(types.Typ[types.Uint8]), st, 1))
				h := x.sc.Fresh("heap_uint8_scan", heapSort(SBV8))
				old8 := x.heap(st, SBV8)
				x.sc.Assume(T(SBool, "(forall ((a Int)) (! (=> (not (= a %s)) (= (select %s a) (select %s a))) :pattern ((select %s a))))", sBase(b).S, h.S, old8.S, h.S))
				x.setHeap(st, SBV8, Ite(okc, h, old8))
				x.assume(st, Implies(okc, Eq(App("HashV", "hashOf", x.heap(st, SBV8), b), rr.vals[i])))
				nv = b
			default:
				nv = x.sc.Fresh("col_"+rr.cols[i], old.Sort)
			}
			if nv.S == "" || nv.Sort != old.Sort {
				nv = x.sc.Fresh("col", old.Sort)
			}
			x.store(st, loc, Ite(okc, nv, old))
		}
		_, ferr := x.dbFail(st, "scan")
		noRows := x.globalByName("github.com/jackc/pgx/v5", "ErrNoRows")
		return &Val{T: x.sc.Define("scan_err", Ite(rr.fail, ferr, Ite(rr.found, Term{"inil", SIface}, noRows))), Ty: errorType}
	}
	ifaceMods["github.com/jackc/pgx/v5.Row.Scan"] = func(x *Exec, m *modSet) {
		m.allHeaps = false
		m.heaps["heap_uint8"] = true
		m.heaps["heap_uint64"] = true
		m.heaps["heap___byte"] = true
		m.alloc = true
	}

	// the Destination (assumed contract; dig.Integration refines it)
	ifaceModels["github.com/indexsupply/shovel/shovel.Destination.Delete"] = func(x *Exec, cs *callSite) *Val {
		st := cs.st
		if x.dbMode() == "" {
			return &Val{T: x.sc.Fresh("del_err", SIface), Ty: errorType}
		}
		x.assumeNote("Destination.Delete(ctx, pg, n): removes the pair's rows with block_num >= n on pg, or fails without effect (refined by dig.Integration.Delete)")
		v := x.view(st, x.term(cs.args[1]))
		fail, ferr := x.dbFail(st, "destdelete")
		n := x.term(cs.args[2])
		old := st.ghost[v+"rows"]
		nv := x.sc.Fresh(v+"rows_del", sRows)
		x.sc.Assume(T(SBool, "(forall ((m (_ BitVec 64))) (! (= (select %s m) (ite (bvuge m %s) 0 (select %s m))) :pattern ((select %s m))))", nv.S, n.S, old.S, nv.S))
		st.ghost[v+"rows"] = x.choose(v+"rows", fail, old, nv)
		if v == "D_" {
			x.commitObligations(cs, "autocommit")
		}
		return &Val{T: x.sc.Define("del_err", Ite(fail, ferr, Term{"inil", SIface})), Ty: errorType}
	}
	ifaceMods["github.com/indexsupply/shovel/shovel.Destination.Delete"] = func(x *Exec, m *modSet) {
		for _, g := range []string{"D_rows", "W_rows", "V_rows"} {
			m.ghost[g] = true
		}
	}
	ifaceModels["github.com/indexsupply/shovel/shovel.Destination.Insert"] = func(x *Exec, cs *callSite) *Val {
		st := cs.st
		tup := cs.res.(*types.Tuple)
		nr := x.freshVal(st, "nrows", tup.At(0).Type())
		if x.dbMode() == "" {
			return &Val{Ty: tup, Tuple: []*Val{nr, {T: x.sc.Fresh("ins_err", SIface), Ty: errorType}}}
		}
		x.assumeNote("Destination.Insert(ctx, mu, pg, blocks): adds the rows derived from each of blocks once on pg, or fails without effect (COPY is all-or-nothing)")
		v := x.view(st, x.term(cs.args[2]))
		fail, ferr := x.dbFail(st, "destinsert")
		blocks := x.term(cs.args[3])
		bt := cs.cc.Args[3].Type().Underlying().(*types.Slice).Elem()
		h := x.heap(st, bt)
		old := st.ghost[v+"rows"]
		nv := x.sc.Fresh(v+"rows_ins", sRows)
		// absolute-index form (a ranges over the backing array): robust triggers
		arr := x.sc.Define("ins_arr", Select(h, sBase(blocks)))
		numAbs := func(a string) string {
			return x.blockNum(Term{fmt.Sprintf("(select %s %s)", arr.S, a), x.sortOf(bt)}, bt).S
		}
		inb := func(a string) string {
			return fmt.Sprintf("(bvult (bvsub %s %s) %s)", a, sOff(blocks).S, sLen(blocks).S)
		}
		distinct := T(SBool, "(forall ((a (_ BitVec 64)) (b (_ BitVec 64))) (=> (and %s %s (not (= a b))) (not (= %s %s))))", inb("a"), inb("b"), numAbs("a"), numAbs("b"))
		x.check(st, "requires", x.oblName(cs.fr, "insert-distinct-blocks", cs.pos), distinct, []string{"C01"}, "blocks handed to Destination.Insert have pairwise distinct numbers", x.pos(cs.pos))
		x.sc.Assume(T(SBool, "(forall ((m (_ BitVec 64))) (! (= (select %s m) (+ (select %s m) (ite (exists ((a (_ BitVec 64))) (and %s (= %s m))) 1 0))) :pattern ((select %s m))))",
			nv.S, old.S, inb("a"), numAbs("a"), nv.S))
		// consequence for consecutively numbered blocks (witness a = off + (m - b0); the
		// underlying bit-vector fact is discharged as lemma:contig-witness in every run)
		b0 := numAbs(sOff(blocks).S)
		x.sc.Assume(T(SBool, "(=> (forall ((a (_ BitVec 64))) (! (=> %s (= %s (bvadd %s (bvsub a %s)))) :pattern ((select %s a)))) (forall ((m (_ BitVec 64))) (! (= (select %s m) (+ (select %s m) (ite (bvult (bvsub m %s) %s) 1 0))) :pattern ((select %s m)))))",
			inb("a"), numAbs("a"), b0, sOff(blocks).S, arr.S, nv.S, old.S, b0, sLen(blocks).S, nv.S))
		x.assumeNote("Destination.Insert on consecutively numbered blocks b0..b0+n-1 adds one copy for exactly the numbers m with m-b0 < n (consequence of the element-wise contract; bit-vector witness lemma discharged separately)")
		st.ghost[v+"rows"] = x.choose(v+"rows", fail, old, nv)
		if v == "D_" {
			x.commitObligations(cs, "autocommit")
		}
		return &Val{Ty: tup, Tuple: []*Val{nr, {T: x.sc.Define("ins_err", Ite(fail, ferr, Term{"inil", SIface})), Ty: errorType}}}
	}
	ifaceMods["github.com/indexsupply/shovel/shovel.Destination.Insert"] = func(x *Exec, m *modSet) {
		for _, g := range []string{"D_rows", "W_rows", "V_rows"} {
			m.ghost[g] = true
		}
	}

	// the block source (assumed; jrpc2.Client refines Get through validate, C07)
	src := "github.com/indexsupply/shovel/shovel.Source"
	ifaceModels[src+".NextURL"] = func(x *Exec, cs *callSite) *Val {
		v := x.freshVal(cs.st, "url", cs.res)
		x.assume(cs.st, Not(Eq(v.T, Term{"pnil", SPtr})))
		return v
	}
	ifaceMods[src+".NextURL"] = func(x *Exec, m *modSet) {}
	ifaceModels[src+".Latest"] = func(x *Exec, cs *callSite) *Val {
		x.assumeNote("Source.Latest: returns some announced (number, hash) or an error; no relation between successive calls (the chain may grow or reorganise between any two calls); block numbers are below 2^62")
		v := x.freshVal(cs.st, "latest", cs.res)
		x.assume(cs.st, App(SBool, "bvult", v.Tuple[0].T, bv64(1<<62)))
		return v
	}
	ifaceMods[src+".Latest"] = func(x *Exec, m *modSet) { m.alloc = true }
	ifaceModels[src+".Hash"] = func(x *Exec, cs *callSite) *Val { return x.freshVal(cs.st, "srchash", cs.res) }
	ifaceMods[src+".Hash"] = func(x *Exec, m *modSet) { m.alloc = true }
	ifaceModels[src+".Get"] = func(x *Exec, cs *callSite) *Val {
		st := cs.st
		x.assumeNote("Source.Get(ctx,url,filter,start,limit): error, or exactly blocks start..start+limit-1 in order, hash-linked where 32-byte hashes are supplied (refined by jrpc2.validate for header/block plans; C07)")
		x.useDB() // hashOf
		tup := cs.res.(*types.Tuple)
		// the returned slice is a NEW object: its representation invariant
		// (base allocated) holds in the allocation map AFTER the call, and
		// the object was not allocated before (freshVal would state the
		// invariant against the allocation map before the call and make the
		// success path contradictory)
		res := &Val{Ty: tup}
		for i := 0; i < tup.Len(); i++ {
			res.Tuple = append(res.Tuple, &Val{T: x.sc.Fresh(fmt.Sprintf("got_%d", i), x.sortOf(tup.At(i).Type())), Ty: tup.At(i).Type()})
		}
		b := res.Tuple[0].T
		e := res.Tuple[1].T
		allocBefore := st.alloc
		start, limit := x.term(cs.args[3]), x.term(cs.args[4])
		bt := tup.At(0).Type().Underlying().(*types.Slice).Elem()
		h := x.heap(st, bt)
		// quantified over the ABSOLUTE index a = off + j (a bijection on 64-bit
		// vectors): the trigger is a plain (select array a), which survives the
		// solvers' normalisation of bit-vector arithmetic
		blk := func(a string) Term {
			return Term{fmt.Sprintf("(select (select %s %s) %s)", h.S, sBase(b).S, a), x.sortOf(bt)}
		}
		rel := fmt.Sprintf("(bvsub a %s)", sOff(b).S)
		x.assume(st, Implies(Eq(e, Term{"inil", SIface}), And(
			Eq(sLen(b), limit), Not(Eq(sBase(b), IntConst(0))),
			Not(Select(allocBefore, sBase(b))), // a new backing array
			T(SBool, "(forall ((a (_ BitVec 64))) (! (=> (bvult %s %s) (= %s (bvadd %s %s))) :pattern (%s)))", rel, limit.S, x.blockNum(blk("a"), bt).S, start.S, rel, blk("a").S),
		)))
		// linkage inside one answer
		x.assume(st, Implies(Eq(e, Term{"inil", SIface}), T(SBool, "(forall ((a (_ BitVec 64))) (! (=> (and (bvult %s %s) (bvugt %s #x0000000000000000) (= (slen %s) #x0000000000000020)) (= (hashOf %s %s) (hashOf %s %s))) :pattern (%s)))",
			rel, limit.S, rel, x.blockParent(blk("a"), bt).S, x.heap(st, SBV8).S, x.blockParent(blk("a"), bt).S, x.heap(st, SBV8).S, x.blockHash(blk("(bvsub a #x0000000000000001)"), bt).S, blk("a").S)))
		if os.Getenv("VC_TEST_GETHOLE") != "" {
			// self-test of the vacuity guard: re-create the contradiction of DESIGN I.6
			x.assume(st, Implies(Eq(e, Term{"inil", SIface}), Select(allocBefore, sBase(b))))
		}
		st.alloc = x.sc.Define("alloc", Store(st.alloc, sBase(b), TTrue))
		x.assume(st, x.typeInv(b, tup.At(0).Type(), st, 2))
		return res
	}
	ifaceMods[src+".Get"] = func(x *Exec, m *modSet) { m.alloc = true }

	// context / misc effect-free library calls used by the protocol code
	for _, n := range []string{"(*net/url.URL).String", "(*net/url.URL).Hostname", "(*github.com/indexsupply/shovel/jrpc2.URL).String", "(*github.com/indexsupply/shovel/jrpc2.URL).Hostname", "cmp.Compare", "slices.Contains"} {
		pureFuncs[n] = true
	}
	ifaceModels["context.Context.Value"] = func(x *Exec, cs *callSite) *Val { return x.freshVal(cs.st, "ctxval", cs.res) }
	ifaceMods["context.Context.Value"] = func(x *Exec, m *modSet) {}
	ifaceModels["*.Error"] = func(x *Exec, cs *callSite) *Val { return x.freshVal(cs.st, "errstr", cs.res) }
	ifaceMods["*.Error"] = func(x *Exec, m *modSet) {}

	// slices.SortFunc: permutes the elements of its argument (contents havocked, length kept);
	// what the caller may rely on is stated by an `after slices.SortFunc assume` clause
	libModels["slices.SortFunc"] = func(x *Exec, cs *callSite) *Val {
		st := cs.st
		sl := cs.cc.Args[0].Type().Underlying().(*types.Slice)
		s := x.term(cs.args[0])
		old := st.clone()
		h := x.heap(st, sl.Elem())
		nh := x.sc.Fresh("sorted", h.Sort)
		x.sc.Assume(T(SBool, "(forall ((a Int)) (! (=> (not (= a %s)) (= (select %s a) (select %s a))) :pattern ((select %s a))))", sBase(s).S, nh.S, h.S, nh.S))
		x.setHeap(st, sl.Elem(), nh)
		x.afterCall(cs, "slices.SortFunc", old)
		return &Val{}
	}
	libMods["slices.SortFunc"] = func(x *Exec, m *modSet, callee *ssa.Function) {
		if callee.Signature.Params().Len() > 0 {
			if sl, ok := callee.Signature.Params().At(0).Type().Underlying().(*types.Slice); ok {
				m.heaps[x.heapName(sl.Elem())] = true
			}
		}
	}

	// contract builtins over the ghost database
	for g, srt := range wctxGetters {
		g, srt := g, srt
		contractBuiltins["wctx_"+g] = func(x *Exec, env *CEnv, n *CCall) (*CV, error) {
			v, err := x.eval(env, n.Args[0])
			if err != nil {
				return nil, err
			}
			x.wctxDecl()
			ty := types.Type(types.Typ[types.String])
			if srt == SBV64 {
				ty = types.Typ[types.Uint64]
			}
			return &CV{T: App(srt, "wctx_"+g, x.cvTerm(v, nil)), Ty: ty}, nil
		}
	}
	contractBuiltins["runeat"] = func(x *Exec, env *CEnv, n *CCall) (*CV, error) {
		sv, err := x.eval(env, n.Args[0])
		if err != nil {
			return nil, err
		}
		iv, err := x.eval(env, n.Args[1])
		if err != nil {
			return nil, err
		}
		x.runeDecl()
		return &CV{T: App(BVSort(32), "rune.at", x.cvTerm(sv, nil), x.cvTerm(iv, &CV{T: bv64(0)})), Ty: types.Typ[types.Int32]}, nil
	}
	contractBuiltins["runelen"] = func(x *Exec, env *CEnv, n *CCall) (*CV, error) {
		sv, err := x.eval(env, n.Args[0])
		if err != nil {
			return nil, err
		}
		iv, err := x.eval(env, n.Args[1])
		if err != nil {
			return nil, err
		}
		x.runeDecl()
		return &CV{T: App(SBV64, "rune.len", x.cvTerm(sv, nil), x.cvTerm(iv, &CV{T: bv64(0)})), Ty: types.Typ[types.Int]}, nil
	}
	for _, nm := range []string{"IsLetter", "IsDigit"} {
		nm := nm
		contractBuiltins["unicode_"+nm] = func(x *Exec, env *CEnv, n *CCall) (*CV, error) {
			v, err := x.eval(env, n.Args[0])
			if err != nil {
				return nil, err
			}
			x.sc.Decl("fn:unicode."+nm, fmt.Sprintf("(declare-fun unicode.%s ((_ BitVec 32)) Bool)", nm))
			return &CV{T: App(SBool, "unicode."+nm, x.cvTerm(v, &CV{T: BVConst(0, 32)})), Ty: types.Typ[types.Bool]}, nil
		}
	}
	// dynamic type tests on interface values: istype(x, "T"), unbox(x, "T")
	contractBuiltins["istype"] = func(x *Exec, env *CEnv, n *CCall) (*CV, error) {
		v, err := x.eval(env, n.Args[0])
		if err != nil {
			return nil, err
		}
		ts, ok := n.Args[1].(*CStr)
		if !ok {
			return nil, fmt.Errorf("istype: second argument must be a type name in quotes")
		}
		t, err := x.resolveType(env, ts.V)
		if err != nil {
			return nil, err
		}
		vt := x.cvTerm(v, nil)
		return &CV{T: And(App(SBool, "(_ is ival)", vt), Eq(App(SInt, "itag", vt), IntConst(int64(x.typeTag(t))))), Ty: types.Typ[types.Bool]}, nil
	}
	contractBuiltins["unbox"] = func(x *Exec, env *CEnv, n *CCall) (*CV, error) {
		v, err := x.eval(env, n.Args[0])
		if err != nil {
			return nil, err
		}
		ts, ok := n.Args[1].(*CStr)
		if !ok {
			return nil, fmt.Errorf("unbox: second argument must be a type name in quotes")
		}
		t, err := x.resolveType(env, ts.V)
		if err != nil {
			return nil, err
		}
		_, uf := x.boxFn(x.sortOf(t))
		return &CV{T: App(x.sortOf(t), uf, App(SBox, "ibox", x.cvTerm(v, nil))), Ty: t}, nil
	}
	// callresult(F, k): the value returned by the k-th call of function/method F
	// executed so far in this function (ghost name for an unnamed temporary)
	contractBuiltins["callresult"] = func(x *Exec, env *CEnv, n *CCall) (*CV, error) {
		if len(n.Args) != 2 {
			return nil, fmt.Errorf("callresult(F, k)")
		}
		id, ok := n.Args[0].(*CIdent)
		k, ok2 := n.Args[1].(*CInt)
		if !ok || !ok2 || env.fr == nil {
			return nil, fmt.Errorf("callresult: expected a function name and a constant")
		}
		vs := env.fr.callVals[id.Name]
		if int(k.V.Int64()) >= len(vs) {
			return nil, fmt.Errorf("callresult: %s has been called %d times here", id.Name, len(vs))
		}
		v := vs[k.V.Int64()]
		cv := x.cvOfVal(v)
		return cv, nil
	}
	// addr(s[i]): the pointer &s[i] (element of a slice)
	contractBuiltins["addr"] = func(x *Exec, env *CEnv, n *CCall) (*CV, error) {
		if len(n.Args) != 1 {
			return nil, fmt.Errorf("addr(e)")
		}
		v, err := x.eval(env, n.Args[0])
		if err != nil {
			return nil, err
		}
		if v.Addr == nil || v.Addr.Kind != LElem || v.Ty == nil {
			return nil, fmt.Errorf("addr: only elements of slices have an address here")
		}
		return &CV{T: x.ptrTerm(v.Addr), Ty: types.NewPointer(v.Ty)}, nil
	}
	contractBuiltins["fetched"] = func(x *Exec, env *CEnv, n *CCall) (*CV, error) {
		v, err := x.eval(env, n.Args[0])
		if err != nil {
			return nil, err
		}
		x.sc.Decl("fn:fetched", "(declare-fun fetched (Slice) Bool)")
		return &CV{T: App(SBool, "fetched", x.cvTerm(v, nil)), Ty: types.Typ[types.Bool]}, nil
	}
	// fetchedfor(b, start, limit): b is the answer of a successful fetch of exactly that range
	contractBuiltins["fetchedfor"] = func(x *Exec, env *CEnv, n *CCall) (*CV, error) {
		if len(n.Args) != 3 {
			return nil, fmt.Errorf("fetchedfor(b, start, limit)")
		}
		var ts []Term
		for i, a := range n.Args {
			v, err := x.eval(env, a)
			if err != nil {
				return nil, err
			}
			like := &CV{T: Term{"", SBV64}}
			if i == 0 {
				like = nil
			}
			ts = append(ts, x.cvTerm(v, like))
		}
		x.sc.Decl("fn:fetchedfor", "(declare-fun fetchedfor (Slice (_ BitVec 64) (_ BitVec 64)) Bool)")
		return &CV{T: App(SBool, "fetchedfor", ts...), Ty: types.Typ[types.Bool]}, nil
	}
	contractBuiltins["has"] = func(x *Exec, env *CEnv, n *CCall) (*CV, error) {
		m, err := x.eval(env, n.Args[0])
		if err != nil {
			return nil, err
		}
		mt, ok := m.Ty.Underlying().(*types.Map)
		if !ok {
			return nil, fmt.Errorf("has: not a map")
		}
		k, err := x.eval(env, n.Args[1])
		if err != nil {
			return nil, err
		}
		dom, _ := x.mapHeaps(env.st, mt)
		if env.specHeaps != nil {
			env.specHeaps[x.mapDomName(mt)] = true
		}
		mtm := x.cvTerm(m, nil)
		return &CV{T: And(Not(Eq(mtm, IntConst(0))), Select(Select(dom, mtm), x.cvTerm(k, &CV{T: Term{"", x.sortOf(mt.Key())}, Ty: mt.Key()}))), Ty: types.Typ[types.Bool]}, nil
	}
	contractBuiltins["hashof"] = func(x *Exec, env *CEnv, n *CCall) (*CV, error) {
		v, err := x.eval(env, n.Args[0])
		if err != nil {
			return nil, err
		}
		x.useDB()
		if env.specHeaps != nil {
			env.specHeaps[x.heapName(SBV8)] = true
		}
		return &CV{T: App("HashV", "hashOf", x.heap(env.st, SBV8), x.cvTerm(v, nil))}, nil
	}
	contractBuiltins["parenth"] = func(x *Exec, env *CEnv, n *CCall) (*CV, error) {
		v, err := x.eval(env, n.Args[0])
		if err != nil {
			return nil, err
		}
		return &CV{T: App("HashV", "parentH", x.cvTerm(v, nil))}, nil
	}
	contractBuiltins["egerr"] = func(x *Exec, env *CEnv, n *CCall) (*CV, error) {
		v, err := x.eval(env, n.Args[0])
		if err != nil {
			return nil, err
		}
		var key Term
		if v.Addr != nil && v.Addr.Kind == LElem {
			key = v.Addr.Base
		} else if v.Loc != nil && v.Loc.Kind == LElem {
			key = v.Loc.Base
		} else {
			key = App(SInt, "pbase", x.cvTerm(v, nil))
		}
		return &CV{T: Select(egErrs(x, env.st), key), Ty: errorType}, nil
	}
}

func (x *Exec) globalByName(pkgPath, name string) Term {
	for _, p := range x.w.prog.AllPackages() {
		if p.Pkg.Path() == pkgPath {
			if g, ok := p.Members[name].(*ssa.Global); ok {
				return x.globalInit(nil, g)
			}
		}
	}
	t := Term{"glob_missing_" + mangleIdent(pkgPath+"."+name), SIface}
	x.sc.Decl("glob:"+t.S, fmt.Sprintf("(declare-const %s Iface)\n(assert (not (= %s inil)))", t.S, t.S))
	x.errSentinels = appendUnique(x.errSentinels, t.S)
	return t
}

// eth.Block field access by name on a block value term
func (x *Exec) blockField(b Term, bt types.Type, path ...string) Term {
	cur, t := b, bt
	for _, name := range path {
		p := findField(t, name)
		if p == nil {
			panic("blockField: no field " + name)
		}
		for _, idx := range p {
			cur = x.fieldGet(cur, t, idx)
			t = t.Underlying().(*types.Struct).Field(idx).Type()
		}
	}
	return cur
}

func (x *Exec) blockNum(b Term, bt types.Type) Term  { return x.blockField(b, bt, "Header", "Number") }
func (x *Exec) blockHash(b Term, bt types.Type) Term { return x.blockField(b, bt, "Header", "Hash") }
func (x *Exec) blockParent(b Term, bt types.Type) Term {
	return x.blockField(b, bt, "Header", "Parent")
}

// afterCall assumes the `after <callee> assume <expr>` clauses of the function
// under verification (assumed call-site contracts, listed as assumptions).
func (x *Exec) afterCall(cs *callSite, callee string, old *State) {
	c := x.w.contractOf(cs.fr.fn)
	if c == nil {
		return
	}
	for _, cl := range c.Clauses {
		if cl.Kind != "after" || cl.Name != callee {
			continue
		}
		env := x.contractEnv(cs.fr, cs.st)
		env.old = old
		x.bindLiveNames(env, cs.fr, cs.st)
		t, err := x.evalBool(env, cl.Expr)
		if err != nil {
			x.unsupported("after clause: " + err.Error())
			continue
		}
		x.assume(cs.st, t)
		x.assumeNote(fmt.Sprintf("assumed at the call of %s in %s: %s", callee, x.fname(cs.fr), cl.Text))
	}
}

// choose returns a fresh array constant that equals a when cond holds and b otherwise.
func (x *Exec) choose(name string, cond, a, b Term) Term {
	if a.S == b.S {
		return a
	}
	m := x.sc.Fresh(name, a.Sort)
	x.sc.Assume(Implies(cond, Eq(m, a)))
	x.sc.Assume(Implies(Not(cond), Eq(m, b)))
	return m
}
