package main

import (
	"fmt"
	"go/token"
	"go/types"
	"strconv"
	"strings"

	"golang.org/x/tools/go/ssa"
)

// step executes one instruction; it returns true when the block ended.
func (x *Exec) step(fr *Frame, st *State, ins ssa.Instruction, incoming map[*ssa.BasicBlock][]edgeState) bool {
	b := ins.Block()
	if ins.Pos().IsValid() {
		x.curPos = ins.Pos()
	}
	switch i := ins.(type) {
	case *ssa.DebugRef:
		return false
	case *ssa.Alloc:
		x.doAlloc(fr, st, i)
	case *ssa.BinOp:
		a, c := x.val(fr, i.X), x.val(fr, i.Y)
		fr.env[i] = x.binopVal(st, i.Op, a, c, i.X.Type(), i.Y.Type(), i.Type(), i.Pos())
	case *ssa.UnOp:
		fr.env[i] = x.unop(fr, st, i)
	case *ssa.Call:
		fr.env[i] = x.call(fr, st, i.Common(), i, i.Pos())
	case *ssa.ChangeInterface:
		fr.env[i] = &Val{T: x.term(x.val(fr, i.X)), Ty: i.Type()}
	case *ssa.ChangeType:
		v := x.val(fr, i.X)
		nv := *v
		nv.Ty = i.Type()
		fr.env[i] = &nv
	case *ssa.Convert:
		fr.env[i] = x.convert(st, x.val(fr, i.X), i.X.Type(), i.Type())
	case *ssa.Extract:
		t := x.val(fr, i.Tuple)
		if t.Tuple == nil {
			panic("extract from non-tuple " + i.Tuple.String())
		}
		fr.env[i] = t.Tuple[i.Index]
	case *ssa.Field:
		v := x.val(fr, i.X)
		fr.env[i] = &Val{T: x.sc.Define("fld", x.fieldGet(x.term(v), i.X.Type(), i.Field)), Ty: i.Type()}
	case *ssa.FieldAddr:
		pv := x.val(fr, i.X)
		pt := i.X.Type().Underlying().(*types.Pointer).Elem()
		loc := x.derefLoc(st, pv, pt, i.Pos(), "field "+i.X.Name())
		st0 := pt.Underlying().(*types.Struct)
		fr.env[i] = &Val{Loc: &Loc{Kind: LField, Parent: loc, Field: i.Field, T: st0.Field(i.Field).Type()}, Ty: i.Type()}
	case *ssa.Index:
		v := x.val(fr, i.X)
		idx := x.toBV64(x.val(fr, i.Index), i.Index.Type())
		switch u := i.X.Type().Underlying().(type) {
		case *types.Array:
			x.boundsCheck(st, idx, bv64(uint64(u.Len())), i.Pos(), "index")
			fr.env[i] = &Val{T: Select(x.term(v), idx), Ty: i.Type()}
		case *types.Basic: // string
			x.boundsCheck(st, idx, App(SBV64, "gs.len", x.term(v)), i.Pos(), "index")
			fr.env[i] = &Val{T: App(SBV8, "gs.at", x.term(v), idx), Ty: i.Type()}
		default:
			panic("Index on " + i.X.Type().String())
		}
	case *ssa.IndexAddr:
		xv := x.val(fr, i.X)
		idx := x.toBV64(x.val(fr, i.Index), i.Index.Type())
		switch u := i.X.Type().Underlying().(type) {
		case *types.Slice:
			s := x.term(xv)
			x.boundsCheck(st, idx, sLen(s), i.Pos(), "index")
			fr.env[i] = &Val{Loc: &Loc{Kind: LElem, Base: sBase(s), Idx: x.sc.Define("ix", App(SBV64, "bvadd", sOff(s), idx)), T: u.Elem()}, Ty: i.Type()}
		case *types.Pointer: // pointer to array
			arr := u.Elem().Underlying().(*types.Array)
			loc := x.derefLoc(st, xv, u.Elem(), i.Pos(), "array")
			x.boundsCheck(st, idx, bv64(uint64(arr.Len())), i.Pos(), "index")
			fr.env[i] = &Val{Loc: &Loc{Kind: LArr, Parent: loc, Idx: idx, T: arr.Elem()}, Ty: i.Type()}
		default:
			panic("IndexAddr on " + i.X.Type().String())
		}
	case *ssa.Lookup:
		fr.env[i] = x.lookup(fr, st, i)
	case *ssa.MakeClosure:
		c := &Closure{Fn: i.Fn.(*ssa.Function)}
		for _, bnd := range i.Bindings {
			c.Bindings = append(c.Bindings, x.val(fr, bnd))
		}
		fr.env[i] = &Val{Clo: c, Ty: i.Type()}
	case *ssa.MakeInterface:
		fr.env[i] = x.makeInterface(st, x.val(fr, i.X), i.X.Type(), i.Type())
	case *ssa.MakeMap:
		a := x.newObject(st, "map")
		mt := i.Type().Underlying().(*types.Map)
		x.mapInit(st, mt, a)
		fr.env[i] = &Val{T: a, Ty: i.Type()}
	case *ssa.MakeChan:
		fr.env[i] = &Val{T: x.newObject(st, "chan"), Ty: i.Type()}
	case *ssa.MakeSlice:
		ln := x.toBV64(x.val(fr, i.Len), i.Len.Type())
		cp := x.toBV64(x.val(fr, i.Cap), i.Cap.Type())
		x.check(st, "no-panic", x.oblName(fr, "makeslice", i.Pos()), And(App(SBool, "bvsle", bv64(0), ln), App(SBool, "bvsle", ln, cp), App(SBool, "bvult", cp, bv64(maxLen))),
			fnProps(fr), "make: len out of range", x.pos(i.Pos()))
		et := i.Type().Underlying().(*types.Slice).Elem()
		fr.env[i] = &Val{T: x.makeSlice(st, et, ln, cp), Ty: i.Type()}
	case *ssa.MapUpdate:
		x.mapUpdate(fr, st, i)
	case *ssa.Next:
		fr.env[i] = x.next(fr, st, i)
	case *ssa.Range:
		fr.env[i] = x.rangeInit(fr, st, i)
	case *ssa.Slice:
		fr.env[i] = x.sliceOp(fr, st, i)
	case *ssa.SliceToArrayPointer:
		s := x.term(x.val(fr, i.X))
		arr := i.Type().Underlying().(*types.Pointer).Elem().Underlying().(*types.Array)
		x.check(st, "no-panic", x.oblName(fr, "slice2arr", i.Pos()), App(SBool, "bvsge", sLen(s), bv64(uint64(arr.Len()))), fnProps(fr), "slice to array pointer: too short", x.pos(i.Pos()))
		x.unsupported("SliceToArrayPointer value")
		fr.env[i] = &Val{T: Term{"pnil", SPtr}, Ty: i.Type()}
	case *ssa.Store:
		addr := x.val(fr, i.Addr)
		pt := i.Addr.Type().Underlying().(*types.Pointer).Elem()
		loc := x.derefLoc(st, addr, pt, i.Pos(), "store")
		v := x.val(fr, i.Val)
		x.store(st, loc, x.storable(v))
		x.noteStore(fr, st, loc, i.Pos())
	case *ssa.TypeAssert:
		fr.env[i] = x.typeAssert(fr, st, i)
	case *ssa.Defer:
		x.doDefer(fr, st, i)
	case *ssa.RunDefers:
		x.runDefers(fr, st)
	case *ssa.Go:
		// sequentialised: executed at the launch point (assumption, DESIGN §2.3)
		x.assumeNote("go statement in " + x.fname(fr) + " executed at the launch point (sequentialisation)")
		x.call(fr, st, i.Common(), nil, i.Pos())
	case *ssa.Send, *ssa.Select:
		x.unsupported(fmt.Sprintf("%T in %s", ins, fr.fn.Name()))
		if v, ok := ins.(ssa.Value); ok {
			fr.env[v] = x.freshVal(st, "sel", v.Type())
		}
	case *ssa.Phi:
		return false

	// terminators
	case *ssa.Jump:
		x.edge(fr, st, b, b.Succs[0], incoming)
		return true
	case *ssa.If:
		c := x.term(x.val(fr, i.Cond))
		c = x.sc.Define("cond", c)
		st1, st2 := st.clone(), st.clone()
		st1.reach = x.sc.Define("reach", And(st.reach, c))
		st2.reach = x.sc.Define("reach", And(st.reach, Not(c)))
		x.edge(fr, st1, b, b.Succs[0], incoming)
		x.edge(fr, st2, b, b.Succs[1], incoming)
		return true
	case *ssa.Return:
		var vals []*Val
		for _, r := range i.Results {
			vals = append(vals, x.val(fr, r))
		}
		fr.rets = append(fr.rets, retPoint{st, vals})
		return true
	case *ssa.Panic:
		x.doPanic(fr, st, i)
		return true
	default:
		x.unsupported(fmt.Sprintf("instruction %T in %s", ins, fr.fn.Name()))
		if v, ok := ins.(ssa.Value); ok {
			fr.env[v] = x.freshVal(st, "unsup", v.Type())
		}
	}
	return false
}

func (x *Exec) edge(fr *Frame, st *State, from, to *ssa.BasicBlock, incoming map[*ssa.BasicBlock][]edgeState) {
	if isBackEdge(from, to) {
		li := fr.loops[to]
		if li != nil {
			x.loopBackEdge(fr, li, st, from)
		}
		return
	}
	incoming[to] = append(incoming[to], edgeState{from, st})
}

func (x *Exec) oblName(fr *Frame, kind string, p token.Pos) string {
	snip := x.snippet(p)
	base := fmt.Sprintf("%s:%s:%s", x.fname(fr), kind, snip)
	x.oblCount[base]++
	if n := x.oblCount[base]; n > 1 {
		return fmt.Sprintf("%s#%d", base, n)
	}
	return base
}

func (x *Exec) boundsCheck(st *State, idx, ln Term, p token.Pos, what string) {
	fr := x.curFrame
	goal := App(SBool, "bvult", idx, ln)
	x.check(st, "no-panic", x.oblName(fr, what, p), goal, fnProps(fr), "index out of range", x.pos(p))
}

// storable turns any value into a term that can be written to memory.
func (x *Exec) storable(v *Val) Term {
	return x.term(v)
}

func (x *Exec) doAlloc(fr *Frame, st *State, i *ssa.Alloc) {
	elem := i.Type().Underlying().(*types.Pointer).Elem()
	if i.Heap {
		a := x.newObject(st, i.Comment)
		loc := &Loc{Kind: LElem, Base: a, Idx: bv64(0), T: elem}
		x.store(st, loc, x.zeroOf(elem))
		fr.env[i] = &Val{Loc: loc, Ty: i.Type()}
		if i.Comment != "" {
			fr.names[i.Comment] = fr.env[i]
		}
		return
	}
	key := cellKey{fr.id, fmt.Sprintf("%s_%s", i.Name(), mangleIdent(i.Comment))}
	loc := &Loc{Kind: LCell, Cell: key, T: elem}
	st.cells[key] = x.zeroOf(elem)
	fr.env[i] = &Val{Loc: loc, Ty: i.Type()}
	if i.Comment != "" {
		fr.names[i.Comment] = fr.env[i]
	}
}

// derefLoc gives the location a pointer value designates and emits the nil check.
func (x *Exec) derefLoc(st *State, pv *Val, elem types.Type, p token.Pos, what string) *Loc {
	if pv.Loc != nil {
		if pv.Loc.T == nil {
			pv.Loc.T = elem
		}
		return pv.Loc
	}
	pt := x.term(pv)
	loc := x.locOfPtr(pt, elem)
	x.check(st, "no-panic", x.oblName(x.curFrame, "nil-deref", p), loc.NilOK, fnProps(x.curFrame), "nil pointer dereference ("+what+")", x.pos(p))
	return loc
}

func (x *Exec) unop(fr *Frame, st *State, i *ssa.UnOp) *Val {
	v := x.val(fr, i.X)
	switch i.Op {
	case token.MUL: // load
		elem := i.Type()
		if clo := x.staticClosureVar(fr, i); clo != nil {
			return clo
		}
		loc := x.derefLoc(st, v, elem, i.Pos(), "load")
		t := x.load(st, loc)
		t = x.sc.Define("ld_"+i.Name(), t)
		if loc.Kind != LCell {
			x.assume(st, x.typeInv(t, elem, st, 1))
		}
		out := &Val{T: t, Ty: elem}
		return out
	case token.NOT:
		return &Val{T: Not(x.term(v)), Ty: i.Type()}
	case token.SUB:
		return &Val{T: App(v.T.Sort, "bvneg", x.term(v)), Ty: i.Type()}
	case token.XOR:
		return &Val{T: App(v.T.Sort, "bvnot", x.term(v)), Ty: i.Type()}
	case token.ARROW:
		x.unsupported("channel receive in " + fr.fn.Name())
		return x.freshVal(st, "recv", i.Type())
	}
	panic("unop " + i.Op.String())
}

func (x *Exec) toBV64(v *Val, t types.Type) Term {
	term := x.term(v)
	w := term.Sort.BVWidth()
	if w == 64 {
		return term
	}
	if w == 0 {
		panic("toBV64: not a bit-vector: " + string(term.Sort))
	}
	if isSigned(t) {
		return T(SBV64, "((_ sign_extend %d) %s)", 64-w, term.S)
	}
	return T(SBV64, "((_ zero_extend %d) %s)", 64-w, term.S)
}

func (x *Exec) binopVal(st *State, op token.Token, a, b *Val, ta, tb, tr types.Type, p token.Pos) *Val {
	// nil comparisons and pointer/func comparisons
	at, bt := x.term(a), x.term(b)
	return &Val{T: x.sc.Define("bin", x.binop(st, op, at, bt, ta, tb, p)), Ty: tr}
}

func (x *Exec) binop(st *State, op token.Token, a, b Term, ta, tb types.Type, p token.Pos) Term {
	signed := isSigned(ta)
	switch op {
	case token.EQL, token.NEQ:
		var eq Term
		switch ta.Underlying().(type) {
		case *types.Slice:
			// only comparison with nil is legal
			switch {
			case a.S == nilSlice.S:
				eq = Eq(sBase(b), IntConst(0))
			case b.S == nilSlice.S:
				eq = Eq(sBase(a), IntConst(0))
			default:
				eq = Eq(a, b) // contracts only: identity of slice headers
			}
		case *types.Signature:
			eq = Eq(a, b)
		default:
			eq = Eq(a, b)
		}
		if op == token.NEQ {
			return Not(eq)
		}
		return eq
	}
	if isString(ta) {
		switch op {
		case token.ADD:
			return x.strConcat(st, a, b)
		case token.LSS, token.LEQ, token.GTR, token.GEQ:
			x.sc.Decl("gs.lt", "(declare-fun gs.lt (Str Str) Bool)")
			switch op {
			case token.LSS:
				return App(SBool, "gs.lt", a, b)
			case token.GTR:
				return App(SBool, "gs.lt", b, a)
			case token.LEQ:
				return Not(App(SBool, "gs.lt", b, a))
			default:
				return Not(App(SBool, "gs.lt", a, b))
			}
		}
	}
	if isBool(ta) {
		switch op {
		case token.AND, token.LAND:
			return And(a, b)
		case token.OR, token.LOR:
			return Or(a, b)
		}
	}
	s := a.Sort
	w := s.BVWidth()
	if w == 0 {
		x.unsupported(fmt.Sprintf("binop %s on sort %s", op, s))
		return x.sc.Fresh("binop", s)
	}
	switch op {
	case token.ADD:
		return bvAddSimp(s, a, b, false)
	case token.SUB:
		return bvAddSimp(s, a, b, true)
	case token.MUL:
		return App(s, "bvmul", a, b)
	case token.QUO, token.REM:
		if st != nil {
			x.check(st, "no-panic", x.oblName(x.curFrame, "div", p), Not(Eq(b, BVConst(0, w))), fnProps(x.curFrame), "division by zero", x.pos(p))
		}
		switch {
		case op == token.QUO && signed:
			return App(s, "bvsdiv", a, b)
		case op == token.QUO:
			return App(s, "bvudiv", a, b)
		case signed:
			return App(s, "bvsrem", a, b)
		default:
			return App(s, "bvurem", a, b)
		}
	case token.AND:
		return App(s, "bvand", a, b)
	case token.OR:
		return App(s, "bvor", a, b)
	case token.XOR:
		return App(s, "bvxor", a, b)
	case token.AND_NOT:
		return App(s, "bvand", a, App(s, "bvnot", b))
	case token.SHL, token.SHR:
		cnt := x.shiftCount(b, tb, w)
		if op == token.SHL {
			return App(s, "bvshl", a, cnt)
		}
		if signed {
			return App(s, "bvashr", a, cnt)
		}
		return App(s, "bvlshr", a, cnt)
	case token.LSS:
		if signed {
			return App(SBool, "bvslt", a, b)
		}
		return App(SBool, "bvult", a, b)
	case token.LEQ:
		if signed {
			return App(SBool, "bvsle", a, b)
		}
		return App(SBool, "bvule", a, b)
	case token.GTR:
		if signed {
			return App(SBool, "bvsgt", a, b)
		}
		return App(SBool, "bvugt", a, b)
	case token.GEQ:
		if signed {
			return App(SBool, "bvsge", a, b)
		}
		return App(SBool, "bvuge", a, b)
	}
	panic("binop " + op.String())
}

// shiftCount converts a shift count to width w, saturating at w.
func (x *Exec) shiftCount(c Term, tc types.Type, w int) Term {
	cw := c.Sort.BVWidth()
	switch {
	case cw == w:
		return c
	case cw < w:
		return T(BVSort(w), "((_ zero_extend %d) %s)", w-cw, c.S)
	default:
		return Ite(App(SBool, "bvuge", c, BVConst(uint64(w), cw)), BVConst(uint64(w), w), T(BVSort(w), "((_ extract %d 0) %s)", w-1, c.S))
	}
}

func (x *Exec) convert(st *State, v *Val, from, to types.Type) *Val {
	fu, tu := from.Underlying(), to.Underlying()
	t := x.term(v)
	if isInteger(from) && isInteger(to) {
		fw, tw := t.Sort.BVWidth(), x.sortOf(to).BVWidth()
		switch {
		case fw == tw:
			return &Val{T: t, Ty: to}
		case fw > tw:
			return &Val{T: T(BVSort(tw), "((_ extract %d 0) %s)", tw-1, t.S), Ty: to}
		case isSigned(from):
			return &Val{T: T(BVSort(tw), "((_ sign_extend %d) %s)", tw-fw, t.S), Ty: to}
		default:
			return &Val{T: T(BVSort(tw), "((_ zero_extend %d) %s)", tw-fw, t.S), Ty: to}
		}
	}
	// string(bytes)
	if sl, ok := fu.(*types.Slice); ok && isString(to) {
		_ = sl
		h := x.heap(st, SBV8)
		x.useGsOf()
		s := T(SStr, "(gs.of %s %s %s)", Select(h, sBase(t)).S, sOff(t).S, sLen(t).S)
		return &Val{T: x.sc.Define("str", s), Ty: to}
	}
	// []byte(string)
	if sl, ok := tu.(*types.Slice); ok && isString(from) {
		_ = sl
		n := App(SBV64, "gs.len", t)
		ns := x.makeSliceRaw(st, SBV8, n, n, false)
		// contents: forall i < n. heap[base][i] = gs.at(s, i)
		h := x.heap(st, SBV8)
		x.assume(st, T(SBool, "(forall ((i (_ BitVec 64))) (! (=> (bvult i %s) (= (select (select %s %s) i) (gs.at %s i))) :pattern ((select (select %s %s) i))))",
			n.S, h.S, sBase(ns).S, t.S, h.S, sBase(ns).S))
		return &Val{T: ns, Ty: to}
	}
	// string(rune) / string(byte)
	if isInteger(from) && isString(to) {
		r := x.sc.Fresh("runestr", SStr)
		c := x.toBV64(v, from)
		x.assume(st, Implies(App(SBool, "bvult", c, bv64(0x80)), And(Eq(App(SBV64, "gs.len", r), bv64(1)),
			Eq(App(SBV8, "gs.at", r, bv64(0)), T(SBV8, "((_ extract 7 0) %s)", c.S)))))
		x.assume(st, And(App(SBool, "bvuge", App(SBV64, "gs.len", r), bv64(1)), App(SBool, "bvule", App(SBV64, "gs.len", r), bv64(4))))
		return &Val{T: r, Ty: to}
	}
	if _, ok := fu.(*types.Basic); ok {
		if _, ok := tu.(*types.Basic); ok {
			// float conversions etc.
			x.unsupported("conversion " + from.String() + " -> " + to.String())
			return x.freshVal(st, "conv", to)
		}
	}
	if _, ok := tu.(*types.Pointer); ok { // unsafe.Pointer conversions
		x.unsupported("conversion " + from.String() + " -> " + to.String())
		return x.freshVal(st, "conv", to)
	}
	x.unsupported("conversion " + from.String() + " -> " + to.String())
	return x.freshVal(st, "conv", to)
}

// makeSlice allocates a zeroed backing array of cp elements.
func (x *Exec) makeSlice(st *State, elem types.Type, ln, cp Term) Term {
	es := x.sortOf(elem)
	s := x.makeSliceRaw(st, elem, ln, cp, true)
	h := x.heap(st, elem)
	zero := x.zeroOf(elem)
	arr := x.constArray(ArraySort(SBV64, es), zero)
	x.setHeap(st, elem, Store(h, sBase(s), arr))
	return s
}

func (x *Exec) makeSliceRaw(st *State, es any, ln, cp Term, _ bool) Term {
	a := x.newObject(st, "arr")
	x.heap(st, es) // make sure the heap is known
	return x.sc.Define("newslice", mkSlice(a, bv64(0), ln, cp))
}

func (x *Exec) sliceOp(fr *Frame, st *State, i *ssa.Slice) *Val {
	xv := x.val(fr, i.X)
	var lo, hi, mx Term
	if i.Low != nil {
		lo = x.toBV64(x.val(fr, i.Low), i.Low.Type())
	} else {
		lo = bv64(0)
	}
	switch u := i.X.Type().Underlying().(type) {
	case *types.Slice:
		s := x.term(xv)
		if i.High != nil {
			hi = x.toBV64(x.val(fr, i.High), i.High.Type())
		} else {
			hi = sLen(s)
		}
		if i.Max != nil {
			mx = x.toBV64(x.val(fr, i.Max), i.Max.Type())
		} else {
			mx = sCap(s)
		}
		// Go: 0 <= lo <= hi <= max <= cap
		goal := And(App(SBool, "bvule", lo, hi), App(SBool, "bvule", hi, mx), App(SBool, "bvule", mx, sCap(s)))
		x.check(st, "no-panic", x.oblName(fr, "slice-bounds", i.Pos()), goal, fnProps(fr), "slice bounds out of range", x.pos(i.Pos()))
		// the stronger "stays inside len" obligation (C10: never read outside the input)
		if x.strictSlice(fr) {
			x.check(st, "in-len", x.oblName(fr, "slice-in-len", i.Pos()), App(SBool, "bvule", hi, sLen(s)), fnProps(fr), "slice expression reaches beyond len (over-read into capacity)", x.pos(i.Pos()))
		}
		ns := mkSlice(sBase(s), App(SBV64, "bvadd", sOff(s), lo), App(SBV64, "bvsub", hi, lo), App(SBV64, "bvsub", mx, lo))
		return &Val{T: x.sc.Define("subslice", ns), Ty: i.Type()}
	case *types.Basic: // string
		s := x.term(xv)
		if i.High != nil {
			hi = x.toBV64(x.val(fr, i.High), i.High.Type())
		} else {
			hi = App(SBV64, "gs.len", s)
		}
		goal := And(App(SBool, "bvule", lo, hi), App(SBool, "bvule", hi, App(SBV64, "gs.len", s)))
		x.check(st, "no-panic", x.oblName(fr, "slice-bounds", i.Pos()), goal, fnProps(fr), "string slice bounds out of range", x.pos(i.Pos()))
		x.useGsSub()
		return &Val{T: x.sc.Define("substr", App(SStr, "gs.sub", s, lo, hi)), Ty: i.Type()}
	case *types.Pointer: // *array
		arr := u.Elem().Underlying().(*types.Array)
		n := bv64(uint64(arr.Len()))
		if i.High != nil {
			hi = x.toBV64(x.val(fr, i.High), i.High.Type())
		} else {
			hi = n
		}
		goal := And(App(SBool, "bvule", lo, hi), App(SBool, "bvule", hi, n))
		x.check(st, "no-panic", x.oblName(fr, "slice-bounds", i.Pos()), goal, fnProps(fr), "slice bounds out of range", x.pos(i.Pos()))
		// slicing an array: copy semantics are not modelled; the result is a fresh slice with equal contents
		loc := x.derefLoc(st, xv, u.Elem(), i.Pos(), "array slice")
		av := x.load(st, loc)
		es := x.sortOf(arr.Elem())
		_ = es
		ns := x.makeSliceRaw(st, arr.Elem(), App(SBV64, "bvsub", hi, lo), App(SBV64, "bvsub", n, lo), false)
		h := x.heap(st, arr.Elem())
		// backing array aliases the array object: approximate by equal contents at creation
		x.setHeap(st, arr.Elem(), Store(h, sBase(ns), av))
		x.assumeNote("slicing a fixed array yields a copy (aliasing with the array object not modelled)")
		ns2 := mkSlice(sBase(ns), lo, App(SBV64, "bvsub", hi, lo), App(SBV64, "bvsub", n, lo))
		return &Val{T: x.sc.Define("arrslice", ns2), Ty: i.Type()}
	}
	panic("sliceOp")
}

func (x *Exec) strictSlice(fr *Frame) bool {
	return x.topC != nil && x.topC.Opts["strict_slices"] == "true"
}

func (x *Exec) doPanic(fr *Frame, st *State, i *ssa.Panic) {
	// explicit panic: allowed only when a panics_if clause of the top-level contract covers it
	goal := TFalse
	if c := x.panicAllowed(fr, st); c.S != "" {
		goal = c
	}
	x.check(st, "no-panic", x.oblName(fr, "panic", i.Pos()), goal, fnProps(fr), "explicit panic reachable", x.pos(i.Pos()))
	st.dead = true
}

func (x *Exec) panicAllowed(fr *Frame, st *State) Term {
	top := x.topFrame
	if top == nil || top.c == nil {
		return Term{}
	}
	var conds []Term
	for _, c := range top.c.Clauses {
		if c.Kind != "panics_if" {
			continue
		}
		env := x.contractEnv(top, top.entry)
		t, err := x.evalBool(env, c.Expr)
		if err != nil {
			x.unsupported("panics_if: " + err.Error())
			continue
		}
		conds = append(conds, t)
	}
	if len(conds) == 0 {
		return Term{}
	}
	return Or(conds...)
}

func (x *Exec) makeInterface(st *State, v *Val, from, to types.Type) *Val {
	s := x.sortOf(from)
	bf, _ := x.boxFn(s)
	tag := x.typeTag(from)
	t := T(SIface, "(ival %d (%s %s))", tag, bf, x.term(v).S)
	out := &Val{T: x.sc.Define("iface", t), Ty: to}
	return out
}

func (x *Exec) typeAssert(fr *Frame, st *State, i *ssa.TypeAssert) *Val {
	v := x.term(x.val(fr, i.X))
	if _, ok := i.AssertedType.Underlying().(*types.Interface); ok {
		// interface-to-interface assertion: succeeds iff the dynamic type implements it; unknown statically
		okc := x.sc.Fresh("implements", SBool)
		x.assume(st, Implies(okc, Not(Eq(v, Term{"inil", SIface}))))
		if i.CommaOk {
			return &Val{Ty: i.Type(), Tuple: []*Val{{T: Ite(okc, v, Term{"inil", SIface}), Ty: i.AssertedType}, {T: okc, Ty: types.Typ[types.Bool]}}}
		}
		x.check(st, "no-panic", x.oblName(fr, "type-assert", i.Pos()), okc, fnProps(fr), "interface conversion may fail", x.pos(i.Pos()))
		return &Val{T: v, Ty: i.AssertedType}
	}
	s := x.sortOf(i.AssertedType)
	_, uf := x.boxFn(s)
	tag := x.typeTag(i.AssertedType)
	okc := And(App(SBool, "(_ is ival)", v), Eq(App(SInt, "itag", v), IntConst(int64(tag))))
	okc = x.sc.Define("isT", okc)
	payload := App(s, uf, App(SBox, "ibox", v))
	if i.CommaOk {
		val := x.sc.Define("ta", Ite(okc, payload, x.zeroOf(i.AssertedType)))
		x.assume(st, x.typeInv(val, i.AssertedType, st, 1))
		return &Val{Ty: i.Type(), Tuple: []*Val{{T: val, Ty: i.AssertedType}, {T: okc, Ty: types.Typ[types.Bool]}}}
	}
	x.check(st, "no-panic", x.oblName(fr, "type-assert", i.Pos()), okc, fnProps(fr), "type assertion may fail", x.pos(i.Pos()))
	out := &Val{T: x.sc.Define("ta", payload), Ty: i.AssertedType}
	x.assume(st, x.typeInv(out.T, i.AssertedType, st, 1))
	return out
}

// ---------------------------------------------------------------------------
// strings: concat, range

func (x *Exec) strConcat(st *State, a, b Term) Term {
	x.sc.Decl("gs.cat", `(declare-fun gs.cat (Str Str) Str)
(assert (forall ((a Str) (b Str)) (! (= (gs.len (gs.cat a b)) (bvadd (gs.len a) (gs.len b))) :pattern ((gs.cat a b)))))
(assert (forall ((a Str) (b Str) (i (_ BitVec 64))) (! (= (gs.at (gs.cat a b) i) (ite (bvult i (gs.len a)) (gs.at a i) (gs.at b (bvsub i (gs.len a))))) :pattern ((gs.at (gs.cat a b) i)))))`)
	return App(SStr, "gs.cat", a, b)
}

func (x *Exec) rangeInit(fr *Frame, st *State, i *ssa.Range) *Val {
	x.nIter++
	switch u := i.X.Type().Underlying().(type) {
	case *types.Basic:
		key := cellKey{fr.id, "iter_" + i.Name()}
		st.cells[key] = bv64(0)
		return &Val{Iter: &iterState{kind: "string", str: x.term(x.val(fr, i.X)), id: x.nIter}, Loc: &Loc{Kind: LCell, Cell: key, T: types.Typ[types.Int]}, Ty: i.Type()}
	case *types.Map:
		key := cellKey{fr.id, "iter_" + i.Name()}
		// visited set
		ks := x.sortOf(u.Key())
		st.cells[key] = Term{fmt.Sprintf("((as const %s) false)", ArraySort(ks, SBool)), ArraySort(ks, SBool)}
		return &Val{Iter: &iterState{kind: "map", m: x.term(x.val(fr, i.X)), mt: u, id: x.nIter}, Loc: &Loc{Kind: LCell, Cell: key, T: nil}, Ty: i.Type()}
	}
	panic("range over " + i.X.Type().String())
}

func (x *Exec) next(fr *Frame, st *State, i *ssa.Next) *Val {
	it := x.val(fr, i.Iter)
	if it.Iter == nil {
		panic("next on non-iterator")
	}
	tup := i.Type().(*types.Tuple)
	switch it.Iter.kind {
	case "string":
		s := it.Iter.str
		pos := st.cells[it.Loc.Cell]
		ok := App(SBool, "bvult", pos, App(SBV64, "gs.len", s))
		x.runeDecl()
		x.assumeNote("range over string: UTF-8 decoding summarised by rune.len/rune.at (ASCII exact, others 1..4 bytes, value >= 0x80)")
		rl := App(SBV64, "rune.len", s, pos)
		// a rune never extends beyond the string
		x.assume(st, Implies(ok, App(SBool, "bvule", App(SBV64, "bvadd", pos, rl), App(SBV64, "gs.len", s))))
		st.cells[it.Loc.Cell] = x.sc.Define("iterpos", Ite(ok, App(SBV64, "bvadd", pos, rl), pos))
		return &Val{Ty: tup, Tuple: []*Val{
			{T: x.sc.Define("iterok", ok), Ty: tup.At(0).Type()},
			{T: pos, Ty: tup.At(1).Type()},
			{T: App(BVSort(32), "rune.at", s, pos), Ty: tup.At(2).Type()},
		}}
	case "map":
		return x.mapNext(fr, st, it, tup)
	}
	panic("next")
}

func (x *Exec) runeDecl() {
	x.sc.Decl("rune", `(declare-fun rune.len (Str (_ BitVec 64)) (_ BitVec 64))
(declare-fun rune.at (Str (_ BitVec 64)) (_ BitVec 32))
(assert (forall ((s Str) (i (_ BitVec 64))) (! (and (bvuge (rune.len s i) #x0000000000000001) (bvule (rune.len s i) #x0000000000000004)) :pattern ((rune.len s i)))))
(assert (forall ((s Str) (i (_ BitVec 64))) (! (=> (bvult (gs.at s i) #x80) (and (= (rune.len s i) #x0000000000000001) (= (rune.at s i) ((_ zero_extend 24) (gs.at s i))))) :pattern ((rune.at s i)) :pattern ((rune.len s i)))))
(assert (forall ((s Str) (i (_ BitVec 64))) (! (=> (bvuge (gs.at s i) #x80) (bvuge (rune.at s i) #x00000080)) :pattern ((rune.at s i)))))`)
}

// bvAddSimp builds a+b or a-b, folding constants: (x + c1) +/- c2 -> x + c;
// keeps index arithmetic in one canonical shape, which congruence needs.
func bvAddSimp(s Sort, a, b Term, sub bool) Term {
	w := s.BVWidth()
	cb, okb := bvConstVal(b, w)
	if !okb || w != 64 {
		if sub {
			return App(s, "bvsub", a, b)
		}
		return App(s, "bvadd", a, b)
	}
	if sub {
		cb = -cb
	}
	base, ca := a, uint64(0)
	if strings.HasPrefix(a.S, "(bvadd ") {
		args := splitArgs(a.S[len("(bvadd ") : len(a.S)-1])
		if len(args) == 2 {
			if c, ok := bvConstVal(Term{args[1], s}, w); ok {
				base, ca = Term{args[0], s}, c
			}
		}
	}
	if c, ok := bvConstVal(a, w); ok {
		return BVConst(c+cb, w)
	}
	tot := ca + cb
	if tot == 0 {
		return base
	}
	return App(s, "bvadd", base, BVConst(tot, w))
}

func bvConstVal(t Term, w int) (uint64, bool) {
	if strings.HasPrefix(t.S, "#x") && len(t.S) == 2+w/4 {
		n, err := strconv.ParseUint(t.S[2:], 16, 64)
		return n, err == nil
	}
	return 0, false
}

// staticClosureVar: a closure verified on its own reads a captured variable of
// function type (hasCol := func..., captured by add). When the enclosing
// function assigns that variable exactly once, with a function literal, the
// load yields that literal, bound to this closure's own captured variables of
// the same name (they are the same variables of the enclosing function).
func staticClosureTarget(i *ssa.UnOp) *ssa.Function {
	fv, ok := i.X.(*ssa.FreeVar)
	if !ok || i.Op != token.MUL || fv.Parent() == nil || fv.Parent().Parent() == nil {
		return nil
	}
	if _, isFunc := i.Type().Underlying().(*types.Signature); !isFunc {
		return nil
	}
	parent := fv.Parent().Parent()
	var cell *ssa.Alloc
	for _, b := range parent.Blocks {
		for _, ins := range b.Instrs {
			if a, ok := ins.(*ssa.Alloc); ok && a.Comment == fv.Name() {
				if cell != nil {
					return nil
				}
				cell = a
			}
		}
	}
	if cell == nil {
		return nil
	}
	var mc *ssa.MakeClosure
	for _, r := range *cell.Referrers() {
		if s, ok := r.(*ssa.Store); ok && s.Addr == ssa.Value(cell) {
			m, ok := s.Val.(*ssa.MakeClosure)
			if !ok || mc != nil {
				return nil
			}
			mc = m
		}
	}
	if mc == nil {
		return nil
	}
	return mc.Fn.(*ssa.Function)
}

func (x *Exec) staticClosureVar(fr *Frame, i *ssa.UnOp) *Val {
	fv, ok := i.X.(*ssa.FreeVar)
	if !ok || fr.fn.Parent() == nil {
		return nil
	}
	if _, isFunc := i.Type().Underlying().(*types.Signature); !isFunc {
		return nil
	}
	parent := fr.fn.Parent()
	var cell *ssa.Alloc
	for _, b := range parent.Blocks {
		for _, ins := range b.Instrs {
			if a, ok := ins.(*ssa.Alloc); ok && a.Comment == fv.Name() {
				if cell != nil {
					return nil
				}
				cell = a
			}
		}
	}
	if cell == nil {
		return nil
	}
	var mc *ssa.MakeClosure
	for _, r := range *cell.Referrers() {
		if s, ok := r.(*ssa.Store); ok && s.Addr == ssa.Value(cell) {
			m, ok := s.Val.(*ssa.MakeClosure)
			if !ok || mc != nil {
				return nil
			}
			mc = m
		}
	}
	if mc == nil {
		return nil
	}
	target := mc.Fn.(*ssa.Function)
	var binds []*Val
	for _, tf := range target.FreeVars {
		var mine *Val
		for _, mf := range fr.fn.FreeVars {
			if mf.Name() == tf.Name() {
				mine = fr.env[mf]
			}
		}
		if mine == nil {
			return nil
		}
		binds = append(binds, mine)
	}
	x.assumeNote(fmt.Sprintf("%s: captured variable %s is the function literal %s assigned once in %s", fr.fn.Name(), fv.Name(), target.Name(), parent.Name()))
	return &Val{Ty: i.Type(), Clo: &Closure{Fn: target, Bindings: binds}}
}
